"""Cross-check of pyvc's encoding of Python against CPython (bounded, random inputs; labelled so).

Each function of selftest/cases/ops.py, and a few pure functions of the repository, is executed symbolically by pyvc
with symbolic arguments (every path: path condition + result term / exception class).  For random concrete arguments
(edge cases included) the path whose condition the arguments satisfy is found with z3, the result term is evaluated
in the model, and both are compared with what CPython computes for the real function.  Any disagreement - no path,
several paths, a different value, a different exception - means the VC generator's encoding is wrong.

usage: crosscheck.py [--n N]   prints one JSON object; exit 0 always"""
import importlib
import json
import os
import random
import sys

HERE = os.path.dirname(os.path.abspath(__file__))
sys.path.insert(0, os.path.dirname(HERE))

from pyvc import terms as tm, solve, verify as VF        # noqa: E402
from pyvc.verify import Contract, INT_, BOOL_, BYTES_, STR_, Exc    # noqa: E402
from pyvc.values import Sym, to_term, kind_of, is_sym, Obj   # noqa: E402

REPO = os.environ.get("VERIF_REPO", "/repo")

CASES = {   # function -> parameter kinds
    "slice_bytes": ["bytes", "int", "int"], "slice_from": ["bytes", "int"], "slice_to": ["bytes", "int"],
    "index_bytes": ["bytes", "int"], "last_bytes": ["bytes"], "concat_len": ["bytes", "bytes"],
    "to_bytes_be": ["int"], "to_bytes_le": ["int"], "arith": ["int", "int"], "shifts": ["nat"],
    "mask": ["nat"], "compare_chain": ["int", "int", "int"], "minmax": ["int", "int"], "branches": ["int", "int"],
    "bool_ops": ["int", "int"], "byte_in": ["bytes", "byte"], "bytes_eq_prefix": ["bytes"],
    "str_concat": ["str", "str"], "chr_class": ["byte"], "bytes_of_list": ["byte", "byte"], "loop_sum": ["int"],
    "ternary": ["int"], "tuple_ret": ["int", "bytes"], "negative_index_slice": ["bytes"], "length_guard": ["bytes"],
    "all_bytes_small": ["bytes"], "any_byte_zero": ["bytes"], "any_nonzero": ["zbytes"], "all_nonzero": ["zbytes"],
    "starts_b": ["bytes"], "divmod_const": ["int"], "reversed_bytes": ["bytes"], "listcomp_bytes": ["bytes"], "join_bytes": ["bytes", "bytes"], "while_else": ["int"], "for_else": ["bytes"],
    "try_else_finally": ["bytes", "int"], "nested_try": ["bytes"], "aug_and_unpack": ["int", "int"], "str_ops": ["str"],
    "conditional_chain": ["int"], "bytes_cmp": ["bytes", "bytes"], "int_conv": ["bytes"],
    "loop_break_continue": ["int"], "nested_loops": ["int"], "return_in_try_finally": ["bytes"], "chained_assign_and_swap": ["int", "int"],
    "none_and_membership": ["int", "int"], "default_and_keyword": ["int"], "closure_counter": ["int"], "list_methods": ["int", "int"],
    "dict_methods": ["int"], "power_abs": ["int"], "join_genexp": ["byte", "byte"], "bool_index": ["int"], "walrus_and_star": ["byte", "byte"], "reversed_and_unpack": ["byte", "byte"], "genexp_consumers": ["byte", "byte"], "bytes_ctor": ["byte"], "overflow_paths": ["int"],
}
REPO_CASES = [   # (file, qualname, [kinds], native accessor, extra parameter specs)
    ("ledger/pin.py", "BasePin.is_valid", ["bytes", "bool"], lambda: importlib.import_module("ledger.pin").BasePin.is_valid,
     dict(cls=VF.REPO("ledger.pin:BasePin"))),
]
SPEC = {"int": INT_, "nat": INT_, "byte": INT_, "bytes": BYTES_, "zbytes": BYTES_, "str": STR_, "bool": BOOL_}


def rand_value(rnd, kind):
    if kind == "int":
        return rnd.choice([0, 1, -1, 2, 7, 8, 255, 256, 65535, 65536, -300, rnd.randint(-1000, 1000), rnd.randint(0, 2 ** 40)])
    if kind == "nat":
        return rnd.choice([0, 1, 3, 255, 256, 1023, rnd.randint(0, 2 ** 20)])
    if kind == "byte":
        return rnd.choice([0, 1, 47, 48, 57, 58, 64, 65, 90, 97, 122, 127, 128, 170, 181, 192, 255, rnd.randint(0, 255)])
    if kind == "bool":
        return rnd.choice([True, False])
    if kind == "bytes":
        n = rnd.choice([0, 1, 2, 3, 4, 5, 8, 9])
        pool = [b"abc", b"HSM", b"\x00", b"\xff", b"A1", b"zz9"]
        return (rnd.choice(pool) + bytes(rnd.getrandbits(8) for _ in range(n)))[:rnd.choice([n, n + 3])]
    if kind == "zbytes":
        return rnd.choice([b"", b"\x00", b"\x00\x00\x00", b"\x00\x01", b"\x05\x00", b"\x07\x09", bytes(rnd.getrandbits(1) for _ in range(4))])
    if kind == "str":
        return "".join(rnd.choice("ab:0 Z") for _ in range(rnd.choice([0, 1, 3, 6])))
    raise ValueError(kind)


def py_of(z3, m, v):
    """value of a pyvc result in a model"""
    if isinstance(v, tuple):
        return tuple(py_of(z3, m, x) for x in v)
    if not is_sym(v):
        return v
    e = m.eval(tm.to_z3(v.term), model_completion=True)
    k = v.kind
    if k == "int":
        return e.as_long()
    if k == "bool":
        return z3.is_true(e)
    if k == "str":
        return e.as_string()
    if k == "bytes":
        n = m.eval(tm.to_z3(tm.Len(v.term)), model_completion=True).as_long()
        return bytes(m.eval(tm.to_z3(tm.Nth(v.term, tm.Int(i))), model_completion=True).as_long() for i in range(n))
    raise ValueError("kind %r" % (k,))


def differs(v, want):
    """term saying that the pyvc result v is NOT the Python value `want` (True / False when decided syntactically)"""
    if isinstance(v, tuple) or isinstance(want, tuple):
        if not (isinstance(v, tuple) and isinstance(want, tuple) and len(v) == len(want)):
            return True
        parts = [differs(a, b) for a, b in zip(v, want)]
        if any(p is True for p in parts):
            return True
        parts = [p for p in parts if p is not False]
        return tm.Or(*parts) if parts else False
    if not is_sym(v):
        return not (type(v) is type(want) and v == want)
    k = v.kind
    if k == "int":
        return True if isinstance(want, bool) or not isinstance(want, int) else tm.Not(tm.Eq(v.term, tm.Int(want)))
    if k == "bool":
        return True if not isinstance(want, bool) else tm.Not(tm.Eq(v.term, tm.Bool(want)))
    if k == "bytes":
        return True if not isinstance(want, bytes) else tm.Not(tm.Eq(v.term, tm.BytesLit(want)))
    if k == "str":
        return True if not isinstance(want, str) else tm.Not(tm.Eq(v.term, tm.Str(want)))
    if k == ("list", "int"):
        if not (isinstance(want, list) and all(isinstance(x, int) and not isinstance(x, bool) for x in want)):
            return True
        return tm.Not(tm.And(tm.Eq(tm.Len(v.term), tm.Int(len(want))), *[tm.Eq(tm.Nth(v.term, tm.Int(i)), tm.Int(x)) for i, x in enumerate(want)]))
    return True


def const_term(kind, val):
    if kind in ("int", "nat", "byte"):
        return tm.Int(val)
    if kind == "bool":
        return tm.Bool(val)
    if kind in ("bytes", "zbytes"):
        return tm.BytesLit(val)
    if kind == "str":
        return tm.Str(val)


def symbolic_paths(root, file, qualname, kinds, pnames, extra=None):
    cls = type("X_" + qualname.replace(".", "_"), (Contract,), dict(
        file=file, qualname=qualname, params=dict({p: SPEC[k] for p, k in zip(pnames, kinds)}, **(extra or {})), pure=True,
        unwind={0: 6},          # a `while` loop in a test case is unrolled (with its unwinding assertion)
        raises={"Exception": Exc()}, serves=["SELFTEST"]))
    v = VF.Verifier(root, contracts={(file, qualname): cls})
    outs = v.verify(cls)
    paths = []
    for st, out, env, old in outs:
        if out[0] == "raise":
            paths.append((list(st.pc), ("raise", out[1].cls.name), env))
        else:
            paths.append((list(st.pc), ("value", out[1] if out[0] == "return" else None), env))
    return paths


def run(n):
    import inspect
    z3 = tm.z3mod()
    rnd = random.Random(7)
    failures, evaluated, funcs = [], 0, 0
    inconclusive = [0]
    skipped = []
    jobs = []
    sys.path.insert(0, os.path.join(HERE, "cases"))
    ops = importlib.import_module("ops")
    for name, kinds in CASES.items():
        fn = getattr(ops, name)
        jobs.append((os.path.join(HERE, "cases"), "ops.py", name, kinds, fn, list(inspect.signature(fn).parameters), None))
    mw = os.path.join(REPO, "middleware")
    sys.path.insert(0, mw)
    for file, qn, kinds, acc, extra in REPO_CASES:
        fn = acc()
        jobs.append((mw, file, qn, kinds, fn, [p for p in inspect.signature(fn).parameters], extra))
    for root, file, qn, kinds, fn, pnames, extra in jobs:
        try:
            paths = symbolic_paths(root, file, qn, kinds, pnames, extra)
        except Exception as e:      # noqa
            if root != os.path.join(HERE, "cases"):
                # a repository function the generator cannot execute (any more): nothing to compare, not a disagreement
                skipped.append("%s: %s" % (qn, str(e)[:120]))
                continue
            failures.append(dict(function=qn, what="symbolic execution failed: %s: %s" % (type(e).__name__, e)))
            continue
        funcs += 1
        for _ in range(n):
            args = [rand_value(rnd, k) for k in kinds]
            try:
                want = ("value", fn(*args))
            except Exception as e:      # noqa
                want = ("raise", type(e).__name__)
            hits = []
            for pc, out, env in paths:
                eqs = []
                for p, k, a in zip(pnames, kinds, args):
                    pv = env[p]
                    if is_sym(pv):
                        eqs.append(tm.Eq(to_term(pv), const_term(k, a)))
                r = solve.z3_check(pc + eqs, 10000, want_model=True)
                if r.verdict == "sat":
                    hits.append((out, r.model))
                elif r.verdict == "unknown":
                    hits.append((("unknown",), None))
            evaluated += 1
            if len(hits) != 1 or hits[0][0][0] == "unknown":
                failures.append(dict(function=qn, args=repr(args), what="%d paths accept this input (expected exactly 1)" % len(hits)))
                continue
            out, m = hits[0]
            if out[0] == "raise":
                if ("raise", out[1]) != want:
                    failures.append(dict(function=qn, args=repr(args), what="CPython: %r, pyvc: raises %s" % (want, out[1])))
                continue
            if want[0] == "raise":
                failures.append(dict(function=qn, args=repr(args), what="CPython: %r, pyvc: returns normally" % (want,)))
                continue
            # the path is fixed; is its result term forced to CPython's value?  (decided by the solver, so that
            # quantified results - all(...), any(...) - are handled too)
            pc, _, env = [p for p in paths if p[1] is out][0]
            eqs = [tm.Eq(to_term(env[p]), const_term(k, a)) for p, k, a in zip(pnames, kinds, args) if is_sym(env[p])]
            diff = differs(out[1], want[1])
            if diff is True:
                failures.append(dict(function=qn, args=repr(args), what="CPython: %r, pyvc: %r" % (want, out[1])))
            elif diff is not False:
                r = solve.z3_check(pc + eqs + [diff], 10000, want_model=True)
                if r.verdict == "sat":
                    try:
                        got = py_of(z3, r.model, out[1])
                    except Exception:       # noqa
                        got = "?"
                    failures.append(dict(function=qn, args=repr(args), what="CPython: %r, pyvc allows: %r" % (want, got)))
                elif r.verdict == "unknown":
                    inconclusive[0] += 1
            if len(failures) > 20:
                break
    return dict(functions=funcs, evaluations=evaluated, inconclusive=inconclusive[0], skipped=skipped, failures=failures[:20],
                bound="%d random argument tuples per function, %d functions" % (n, len(jobs)))


if __name__ == "__main__":
    n = 40
    if "--n" in sys.argv:
        n = int(sys.argv[sys.argv.index("--n") + 1])
    print(json.dumps(run(n), default=str))

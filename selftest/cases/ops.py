"""Synthetic functions exercising the operations of the Python subset that pyvc encodes symbolically.  They are run
both by CPython and (symbolically, then evaluated in a solver model) by pyvc; see selftest/crosscheck.py."""


def slice_bytes(b, i, j):
    return b[i:j]


def slice_from(b, i):
    return b[i:]


def slice_to(b, j):
    return b[:j]


def index_bytes(b, i):
    return b[i]


def last_bytes(b):
    return b[-1]


def concat_len(a, b):
    return len(a + b) + len(a)


def to_bytes_be(n):
    return n.to_bytes(2, byteorder="big", signed=False)


def to_bytes_le(n):
    return n.to_bytes(4, byteorder="little", signed=False)


def arith(a, b):
    return (a + b) * 3 - (a - b) // 4 + a % 8


def shifts(a):
    return (a << 3) + (a >> 2)


def mask(a):
    if a < 0:
        return 0
    return a & 0xFF


def compare_chain(a, b, c):
    return a < b <= c


def minmax(a, b):
    return min(a, b) * 2 + max(a, b)


def branches(a, b):
    if a > b:
        return a - b
    elif a == b:
        return 0
    return b - a


def bool_ops(a, b):
    return (a > 0 and b > 0) or not (a < b)


def byte_in(b, x):
    return x in b


def bytes_eq_prefix(b):
    return b[:3] == b"abc"


def str_concat(s, t):
    return len(s + ":" + t)


def chr_class(c):
    return chr(c).isalnum(), chr(c).isalpha(), chr(c).isdigit()


def bytes_of_list(a, b):
    return bytes([a, b]) + bytes([b])


def loop_sum(n):
    t = 0
    for k in range(5):
        if k < n:
            t += k
    return t


def ternary(a):
    return 1 if a % 2 == 0 else -1


def tuple_ret(a, b):
    return (a + 1, b[1:])


def negative_index_slice(b):
    return b[-3:-1]


def length_guard(b):
    if len(b) < 2:
        raise ValueError("short")
    return b[1]


def all_bytes_small(b):
    return all(map(lambda c: c < 128, b))


def any_byte_zero(b):
    return any(map(lambda c: c == 0, b))


def any_nonzero(b):
    return any(b)


def all_nonzero(b):
    return all(b)


def starts_b(b):
    return b.startswith(b"HSM"), b.endswith(b"9")


def divmod_const(a):
    if a < 0:
        return (0, 0)
    return divmod(a, 1024)


def reversed_bytes(b):
    return b[::-1]


def listcomp_bytes(b):
    return [c + 1 for c in b]


def join_bytes(a, b):
    return b"".join([a, b"-", b]) + b":".join([b, a])


def while_else(n):
    k = 0
    while k < 3:
        if k == n:
            break
        k += 1
    else:
        return -1
    return k


def for_else(b):
    for c in b"abc":
        if c in b:
            break
    else:
        return 0
    return c


def try_else_finally(b, i):
    out = 0
    try:
        x = b[i]
    except IndexError:
        out = -1
    else:
        out = x + 1
    finally:
        out = out * 2
    return out


def nested_try(b):
    try:
        try:
            return b[0] + b[5]
        except IndexError:
            raise ValueError("short")
    except ValueError:
        return -7


def aug_and_unpack(a, b):
    x, y = a + 1, b - 1
    x += y
    y *= 2
    return x - y, (x, y)[0]


def str_ops(s):
    return s[1:] + s[:1], len(s), s == "ab", ("a" in s)


def conditional_chain(a):
    if a < 0:
        r = "neg"
    elif a == 0:
        r = "zero"
    elif a < 10:
        r = "small"
    else:
        r = "big"
    return r + ("!" if a % 2 else "")


def bytes_cmp(a, b):
    return a == b, a != b, a + b == b + a


def int_conv(b):
    if len(b) != 2:
        return -1
    return b[0] * 256 + b[1], (b[0] << 8) | b[1]

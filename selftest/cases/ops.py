"""Synthetic functions exercising the operations of the Python subset that pyvc encodes symbolically.  They are run
both by CPython and (symbolically, then evaluated in a solver model) by pyvc; see selftest/crosscheck.py."""


def slice_bytes(b, i, j):
    return b[i:j]


def slice_from(b, i):
    return b[i:]


def slice_to(b, j):
    return b[:j]


def index_bytes(b, i):
    return b[i]


def last_bytes(b):
    return b[-1]


def concat_len(a, b):
    return len(a + b) + len(a)


def to_bytes_be(n):
    return n.to_bytes(2, byteorder="big", signed=False)


def to_bytes_le(n):
    return n.to_bytes(4, byteorder="little", signed=False)


def arith(a, b):
    return (a + b) * 3 - (a - b) // 4 + a % 8


def shifts(a):
    return (a << 3) + (a >> 2)


def mask(a):
    if a < 0:
        return 0
    return a & 0xFF


def compare_chain(a, b, c):
    return a < b <= c


def minmax(a, b):
    return min(a, b) * 2 + max(a, b)


def branches(a, b):
    if a > b:
        return a - b
    elif a == b:
        return 0
    return b - a


def bool_ops(a, b):
    return (a > 0 and b > 0) or not (a < b)


def byte_in(b, x):
    return x in b


def bytes_eq_prefix(b):
    return b[:3] == b"abc"


def str_concat(s, t):
    return len(s + ":" + t)


def chr_class(c):
    return chr(c).isalnum(), chr(c).isalpha(), chr(c).isdigit()


def bytes_of_list(a, b):
    return bytes([a, b]) + bytes([b])


def loop_sum(n):
    t = 0
    for k in range(5):
        if k < n:
            t += k
    return t


def ternary(a):
    return 1 if a % 2 == 0 else -1


def tuple_ret(a, b):
    return (a + 1, b[1:])


def negative_index_slice(b):
    return b[-3:-1]


def length_guard(b):
    if len(b) < 2:
        raise ValueError("short")
    return b[1]


def all_bytes_small(b):
    return all(map(lambda c: c < 128, b))


def any_byte_zero(b):
    return any(map(lambda c: c == 0, b))


def any_nonzero(b):
    return any(b)


def all_nonzero(b):
    return all(b)


def starts_b(b):
    return b.startswith(b"HSM"), b.endswith(b"9")


def divmod_const(a):
    if a < 0:
        return (0, 0)
    return divmod(a, 1024)


def reversed_bytes(b):
    return b[::-1]


def listcomp_bytes(b):
    return [c + 1 for c in b]


def join_bytes(a, b):
    return b"".join([a, b"-", b]) + b":".join([b, a])


def while_else(n):
    k = 0
    while k < 3:
        if k == n:
            break
        k += 1
    else:
        return -1
    return k


def for_else(b):
    for c in b"abc":
        if c in b:
            break
    else:
        return 0
    return c


def try_else_finally(b, i):
    out = 0
    try:
        x = b[i]
    except IndexError:
        out = -1
    else:
        out = x + 1
    finally:
        out = out * 2
    return out


def nested_try(b):
    try:
        try:
            return b[0] + b[5]
        except IndexError:
            raise ValueError("short")
    except ValueError:
        return -7


def aug_and_unpack(a, b):
    x, y = a + 1, b - 1
    x += y
    y *= 2
    return x - y, (x, y)[0]


def str_ops(s):
    return s[1:] + s[:1], len(s), s == "ab", ("a" in s)


def conditional_chain(a):
    if a < 0:
        r = "neg"
    elif a == 0:
        r = "zero"
    elif a < 10:
        r = "small"
    else:
        r = "big"
    return r + ("!" if a % 2 else "")


def bytes_cmp(a, b):
    return a == b, a != b, a + b == b + a


def int_conv(b):
    if len(b) != 2:
        return -1
    return b[0] * 256 + b[1], (b[0] << 8) | b[1]


def loop_break_continue(n):
    t = 0
    for k in range(6):
        if k == n:
            break
        if k % 2 == 0:
            continue
        t += k
    return t


def nested_loops(n):
    t = 0
    for i in range(3):
        for j in range(3):
            if i * 3 + j == n:
                return t
            t += 1
    return -t


def return_in_try_finally(b):
    r = [0]
    try:
        if len(b) > 2:
            return b[2]
        r[0] = 1
    finally:
        r[0] += 10
    return r[0]


def chained_assign_and_swap(a, b):
    x = y = a
    x, b = b, x
    return x, y, b


def none_and_membership(a, b):
    v = None if a < 0 else a
    if v is None:
        return -1
    if v not in (1, 2, 3) and b is not None:
        return 0
    return v


def default_and_keyword(a):
    def f(x, y=2, *, z=3):
        return x * 100 + y * 10 + z
    return f(a), f(a, 5), f(a, z=7), f(x=1, y=a)


def closure_counter(a):
    acc = []

    def add(v):
        acc.append(v + a)
        return len(acc)
    add(1)
    add(2)
    return acc[0] + acc[1], add(3)


def list_methods(a, b):
    l = [a]
    l.append(b)
    l.extend([a + b])
    l.insert(0, 9)
    last = l.pop()
    return l[0], l[1], l[2], last, len(l)


def dict_methods(a):
    d = {"x": a}
    d["y"] = a + 1
    g = d.get("z", -5)
    has = "x" in d
    p = d.pop("x")
    return g, has, p, len(d), d.get("y")


def power_abs(a):
    if a < -50 or a > 50:
        return 0
    return abs(a), a * a, -a


def bytes_ctor(a):
    return bytes([a, 255 - a]), bytes(3), len(bytes(2) + bytes([a]))


def overflow_paths(n):
    return n.to_bytes(1, byteorder="big", signed=False)


def join_genexp(a, b):
    return b"".join(bytes([x]) for x in (a, b, a)), ",".join(str(k) for k in range(3))


def bool_index(a):
    return ("no", "yes")[a > 3], [10, 20][bool(a)]


def walrus_and_star(a, b):
    def f(x, y, z=0):
        return x * 100 + y * 10 + z
    pair = (a, b)
    if (t := a + b) > 5:
        return f(*pair), t, (7, *pair), [*pair, a] == [a, b, a], a in (0, *pair)
    return f(*pair, z=t), {k: k + a for k in (1, 2, 3) if k != b}.get(2, -1)


def reversed_and_unpack(a, b):
    lo, hi = (min(x, 9) for x in (a, b))
    out = []
    for x in reversed([a, b, lo]):
        out.append(x + hi)
    p, q, r = (x * 2 for x in (a, b, lo))
    back = list(reversed((a, b)))
    return out[0], out[1], out[2], len(out), back[0], back[1], p, q, r


def genexp_consumers(a, b):
    t = tuple(x + 1 for x in (a, b))
    m = max(x * 2 for x in (a, b))
    bs = bytes(x for x in (a, b))
    e = list(enumerate(x + 1 for x in (a, b)))[1][1]
    z = list(zip((a, b), (x for x in (b, a))))[0][1]
    return t, m, bs, e, z

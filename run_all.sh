#!/bin/sh
# developer helper: run every registered quick check, a few at a time; prints the last line of each
cd "$(dirname "$0")"
mkdir -p .work/runall
ids=${@:-$(python3 -c "import json;print(' '.join(c['property_id'] for c in json.load(open('MANIFEST.json'))['checks']))")}
for p in $ids; do echo $p; done | xargs -P 3 -I{} sh -c './check {} > .work/runall/{}.out 2>&1; echo "{} exit=$? $(grep -c "^VIOLATION" .work/runall/{}.out) viol; $(tail -n 1 .work/runall/{}.out)"'

"""A-CSTRUCT: comm/cstruct.py's CStruct subclasses (the SGX structures of sgx/envelope.py) by closed-term evaluation.

CStruct builds its layout at run time by parsing the class docstring with `re` and `struct`: metaprogramming the VC
generator does not model.  Instead the REAL classes are imported under CPython from the tree being verified, and
their size, field order and field offsets are read off them (so an edit of a docstring layout changes what is
verified).  A struct instance over symbolic bytes is then the pair (bytes, offset):
  K(value, offset)        ValueError unless len(value) - offset >= K.get_bytelength()   (struct.unpack_from)
  x.get_raw_data()        value[offset : offset + size]
  x.<bytes field>         value[offset + field offset : ... + field length]
  x.<nested struct field> the nested struct over exactly those bytes
Only plain structs (no __init__ of their own) are modelled; integer fields are not (Unsupported)."""
import importlib
import os
import re
import sys

from pyvc import terms as tm
from pyvc.values import Sym, Opaque, Raise, Unsupported, to_term, as_value, kind_of, is_sym, ClassVal
from pyvc import libmodels as LM
from pyvc import lib as L
from pyvc import interp as I

REPO = os.environ.get("VERIF_REPO", "/repo")
_native = {}


def native_class(cls, allow_own_init=False):
    """the real class object of a repo ClassVal deriving from CStruct (None if it is not one)"""
    if not isinstance(cls, ClassVal) or cls.node is None:
        return None
    chain, c = [], cls
    while True:
        chain.append(c)
        if c.name == "CStruct":
            break
        if not c.bases:
            return None
        c = c.bases[0]
    if len(chain) < 2:
        return None
    for k in chain[:-1]:
        a, _ = k.lookup("__init__")
        if a is not None and getattr(a, "cls", None) is not None and a.cls.name != "CStruct" and not allow_own_init:
            return None          # augmented with parsing logic of its own: its __init__ runs, CStruct.__init__ is a contract
    key = (getattr(cls.module, "name", None) or str(cls.module), cls.name)
    if key not in _native:
        mw = os.path.join(REPO, "middleware")
        if mw not in sys.path:
            sys.path.insert(0, mw)
        modname = getattr(cls.module, "name", None)
        try:
            mod = importlib.import_module(modname)
            _native[key] = getattr(mod, cls.name)
        except Exception as e:      # noqa
            # the module drags in something absent from the sandbox (bitcoin.core): execute only the class definition
            # itself (its docstring IS the layout) under CPython, against the real CStruct base
            try:
                import ast as _ast
                base = importlib.import_module("comm.cstruct").CStruct
                ns = {"CStruct": base, "re": re}
                modnode = _ast.Module(body=[cls.node], type_ignores=[])
                _ast.fix_missing_locations(modnode)
                exec(compile(modnode, getattr(cls.module, "path", None) or "<cstruct>", "exec"), ns)
                _native[key] = ns[cls.name]
            except Exception as e2:      # noqa
                raise Unsupported("cannot obtain the real class %s.%s: %s / %s" % (modname, cls.name, e, e2))
    return _native[key]


def layout(K, little=True):
    """[(name, offset, length, code, nested class or None)] read off the real class"""
    stc, atrmap, names, types, _ = K._spec(little)
    toks = re.findall(r"(\d*)([BsHIQ])", stc.format[1:])
    sizes = {"B": 1, "H": 2, "I": 4, "Q": 8}
    out, off = [], 0
    assert len(toks) == len(names), (stc.format, names)
    for (cnt, code), name, typ in zip(toks, names, types):
        n = int(cnt) if (cnt and code == "s") else sizes.get(code, 1) * (int(cnt) if cnt else 1)
        out.append((name, off, n, code if not (cnt and code != "s") else code + "*", typ))
        off += n
    assert off == stc.size, (off, stc.size)
    return out


def _instantiate(ip, st, cls, K, args, kwargs):
    names = ["value", "offset", "little"]
    a = dict(zip(names, args))
    a.update(kwargs)
    value, offset, little = a.get("value"), a.get("offset", 0), a.get("little", True)
    if is_sym(offset) or is_sym(little) or not isinstance(offset, int) or offset < 0:
        raise Unsupported("CStruct over a symbolic / negative offset")
    if kind_of(value) != "bytes":
        raise Unsupported("CStruct over a non-bytes value")
    size = K.get_bytelength(little)
    n = tm.Len(to_term(value)) if is_sym(value) else tm.Int(len(value))
    ok = tm.Ge(tm.Sub(n, tm.Int(offset)), tm.Int(size))
    for st1, b in ip.branch(st, as_value("bool", ok)):
        if b:
            yield st1, Opaque("cstruct", dict(cls=cls, native=K, value=value, offset=offset, little=little, size=size))
        else:
            yield st1, Raise(I.make_exc(st1, "ValueError", "While parsing: unpack_from requires a buffer of at least %d bytes" % size))


_prev_instantiate = LM.Lib.instantiate


def instantiate(self, ip, st, cls, args, kwargs):
    r = _prev_instantiate(self, ip, st, cls, args, kwargs)
    if r is not None:
        return r
    K = native_class(cls)
    if K is None:
        return None
    return _instantiate(ip, st, cls, K, args, kwargs)


LM.Lib.instantiate = instantiate


def _slice(value, lo, n):
    if is_sym(value):
        return as_value("bytes", tm.Extract(to_term(value), tm.Int(lo), tm.Int(n)))
    return value[lo:lo + n]


@LM.opaque_method("cstruct", "get_raw_data")
def _get_raw_data(ip, st, recv, args, kwargs):
    a = recv.attrs
    yield st, _slice(a["value"], a["offset"], a["size"])


@LM.opaque_method("cstruct", "get_bytelength")
def _get_bytelength(ip, st, recv, args, kwargs):
    yield st, recv.attrs["size"]


_prev_opaque_attr = LM.Lib.opaque_attr


def opaque_attr(self, ip, st, v, name):
    if v.tag == "cstruct" and (v.tag, name) not in LM.OPAQUE_METHODS:
        a = v.attrs
        for fname, off, n, code, typ in layout(a["native"], a["little"]):
            if fname == name:
                if code != "s":
                    raise Unsupported("integer field %s of a CStruct" % name)
                part = _slice(a["value"], a["offset"] + off, n)
                if typ is None:
                    return part
                return Opaque("cstruct", dict(cls=None, native=typ, value=part, offset=0, little=a["little"],
                                              size=typ.get_bytelength(a["little"])))
        raise Unsupported("attribute %s of CStruct %s" % (name, a["native"].__name__))
    return _prev_opaque_attr(self, ip, st, v, name)


LM.Lib.opaque_attr = opaque_attr


# ------------------------------------------------------------------------- instances of classes with their own __init__
from pyvc.values import Obj        # noqa: E402
from pyvc.verify import native     # noqa: E402


@native
def struct_size(ip, st, x):
    """get_bytelength() of the real class of the object / class x"""
    cls = x.cls if isinstance(x, Obj) else x
    K = native_class(cls, allow_own_init=True)
    if K is None:
        raise Unsupported("not a CStruct: %r" % (x,))
    return K.get_bytelength(True)


_prev_obj_attr = LM.Lib.obj_attr


def obj_attr(self, ip, st, v, name):
    if isinstance(v, Obj) and not name.startswith("_"):
        K = native_class(v.cls, allow_own_init=True)
        if K is not None:
            f = st.fields(v)
            if "_raw_value" in f:
                for fname, off, n, code, typ in layout(K, True):
                    if fname == name:
                        if code != "s" or typ is not None:
                            raise Unsupported("field %s of %s" % (name, K.__name__))
                        val, base = f["_raw_value"], f["_offset"]
                        if is_sym(val) or is_sym(base):
                            lo = tm.Add(to_term(base), tm.Int(off))
                            return iter([(st, as_value("bytes", tm.Extract(to_term(val), lo, tm.Int(n))))])
                        return iter([(st, val[base + off:base + off + n])])
    return _prev_obj_attr(self, ip, st, v, name)


LM.Lib.obj_attr = obj_attr

"""A-RE: `re` for the anchored, fixed-length byte patterns the attestation code uses (e.g. b"^POWHSM:(5.[0-9])::").

Supported pattern grammar: optional '^', then a sequence of items each consuming exactly one byte - a literal byte, '.',
or a class [..] of single characters and a-b ranges - with (...) capture groups around sub-sequences.  No quantifiers,
no alternation.  For such a pattern, pattern.match(value) is decidable byte by byte:
   match  <=>  len(value) >= L  and every item accepts its byte      ('.' accepts every byte except 0x0A)
   group(0) = value[:L], group(k) = value[start_k:end_k]
Any other pattern is unsupported (exit 2)."""
from pyvc import terms as tm
from pyvc.terms import INT, BOOL, STR, BYTES
from pyvc.values import Sym, Opaque, Raise, Unsupported, to_term, as_value, kind_of, is_sym
from pyvc import libmodels as LM
from pyvc import interp as I
from pyvc.verify import native


def parse(pattern):
    """-> (items, groups): items = list of ('lit', byte) | ('any',) | ('set', frozenset of bytes); groups = [(start, end)]"""
    p = pattern
    i = 0
    if p[:1] == b"^":
        i = 1
    else:
        raise Unsupported("regex without a leading ^ (match() is anchored, search semantics are not modelled)")
    items, groups, open_ = [], [], []
    while i < len(p):
        c = p[i:i + 1]
        if c == b"(":
            open_.append((len(groups), len(items)))
            groups.append(None)
            i += 1
        elif c == b")":
            gi, start = open_.pop()
            groups[gi] = (start, len(items))
            i += 1
        elif c == b".":
            items.append(("any",))
            i += 1
        elif c == b"[":
            j = p.index(b"]", i)
            body = p[i + 1:j]
            if body[:1] == b"^":
                raise Unsupported("negated class")
            s, k = set(), 0
            while k < len(body):
                if k + 2 < len(body) and body[k + 1:k + 2] == b"-":
                    s.update(range(body[k], body[k + 2] + 1))
                    k += 3
                else:
                    s.add(body[k])
                    k += 1
            items.append(("set", frozenset(s)))
            i = j + 1
        elif c in b"*+?{|\\$":
            raise Unsupported("regex construct %r" % c)
        else:
            items.append(("lit", p[i]))
            i += 1
    if open_:
        raise Unsupported("unbalanced group")
    return items, groups


def match_condition(items, vt):
    conj = [tm.Le(tm.Int(len(items)), tm.Len(vt))]
    for k, it in enumerate(items):
        b = tm.Nth(vt, tm.Int(k))
        if it[0] == "lit":
            conj.append(tm.Eq(b, tm.Int(it[1])))
        elif it[0] == "any":
            conj.append(tm.Not(tm.Eq(b, tm.Int(10))))
        else:
            vals = sorted(it[1])
            ranges, start = [], None
            for x in range(257):
                on = x in it[1]
                if on and start is None:
                    start = x
                if not on and start is not None:
                    ranges.append((start, x - 1))
                    start = None
            conj.append(tm.Or(*[tm.And(tm.Le(tm.Int(a), b), tm.Le(b, tm.Int(c))) for a, c in ranges]))
    return tm.And(*conj)


@LM.register_external("re.compile")
def _compile(ip, st, args, kwargs):
    (p,) = args[:1]
    if is_sym(p) or not isinstance(p, (bytes, str)):
        raise Unsupported("re.compile of a non-constant pattern")
    yield st, Opaque("regex", dict(pattern=p))


@LM.opaque_method("regex", "match")
def _match(ip, st, recv, args, kwargs):
    (v,) = args
    p = recv.attrs["pattern"]
    if isinstance(p, str):
        raise Unsupported("str regex")
    if kind_of(v) != "bytes":
        yield st, Raise(I.make_exc(st, "TypeError", "cannot use a bytes pattern on a string-like object"))
        return
    items, groups = parse(p)
    if not is_sym(v):
        import re
        m = re.compile(p).match(v)
        yield st, (None if m is None else Opaque("match", dict(value=v, n=len(items), groups=groups)))
        return
    cond = match_condition(items, to_term(v))
    for st1, b in ip.branch(st, as_value("bool", cond)):
        yield st1, (Opaque("match", dict(value=v, n=len(items), groups=groups)) if b else None)


@LM.opaque_method("match", "group")
def _group(ip, st, recv, args, kwargs):
    k = args[0] if args else 0
    a = recv.attrs
    lo, hi = (0, a["n"]) if k == 0 else a["groups"][k - 1]
    v = a["value"]
    if is_sym(v):
        yield st, as_value("bytes", tm.Extract(to_term(v), tm.Int(lo), tm.Int(hi - lo)))
    else:
        yield st, v[lo:hi]

"""A-CRYPTO for admin/certificate_v1.py and spec functions over v1 certificates.

A v1 certificate has at most four elements (names are restricted to VALID_NAMES by the element constructor), so
the element map is a *finite map* over that universe and every statement about paths to the root is a finite
formula.  The cryptographic primitives (secp256k1 key parsing / serialisation / tweak / DER / ECDSA verification,
HMAC-SHA256) are uninterpreted functions; link_valid is the property's link condition written over them, and the
library calls of is_valid / get_pubkey are modelled one to one onto them (assumed, not verified)."""
from pyvc import terms as tm
from pyvc.terms import INT, BOOL, STR, BYTES
from pyvc.values import Sym, JVal, Obj, PyDict, FiniteMap, Opaque, Raise, Unsupported, to_term, as_value, kind_of, is_sym
from pyvc import values as V
from pyvc import libmodels as LM
from pyvc import lib as L
from pyvc.verify import native

NAMES = ("device", "attestation", "ui", "signer")
KEY = "PubKey"
tm.USORTS.add(KEY)
root_key = tm.FunDecl("cert.root_key", [], KEY)                      # the given root of trust
# secp256k1 / HMAC primitives (A-CRYPTO): uninterpreted, the library calls of is_valid / get_pubkey map onto them one to one
secp_parse_ok = tm.FunDecl("secp.parse_ok", [BYTES], BOOL)           # ec.PublicKey(b, raw=True) succeeds
secp_parse = tm.FunDecl("secp.parse", [BYTES], KEY)
secp_ser = tm.FunDecl("secp.serialize", [KEY, BOOL], BYTES)          # key.serialize(compressed)
hmac_sha256 = tm.FunDecl("hmac_sha256", [BYTES, BYTES], BYTES)       # hmac.new(key, msg, sha256).digest()
secp_tweak_ok = tm.FunDecl("secp.tweak_ok", [KEY, BYTES], BOOL)      # key.tweak_add(t) succeeds
secp_tweak = tm.FunDecl("secp.tweak_add", [KEY, BYTES], KEY)
secp_deser_ok = tm.FunDecl("secp.der_ok", [BYTES], BOOL)             # ecdsa_deserialize(der) succeeds
secp_verify = tm.FunDecl("secp.ecdsa_verify", [KEY, BYTES, BYTES], BOOL)   # ecdsa_verify(msg, deserialize(der)) under key


def link_valid(message, signature, has_tweak, tweak, keyspec):
    """The property's link condition, over the primitives: `signature` (hex DER) is a valid ECDSA signature over
    `message` (hex) by the certifier's key - tweaked by HMAC-SHA256(tweak, uncompressed key) when a tweak is declared.
    keyspec = (the certifier's key could be obtained, the key)."""
    key_ok, key = keyspec
    hm = hmac_sha256(V.unhex(tweak), secp_ser(key, tm.FALSE))
    vkey = tm.Ite(has_tweak, secp_tweak(key, hm), key)
    return tm.And(key_ok, tm.Implies(has_tweak, secp_tweak_ok(key, hm)), secp_deser_ok(V.unhex(signature)),
                  secp_verify(vkey, V.unhex(message), V.unhex(signature)))


def pubkey_of(value_hex):
    """(ok, key) of ec.PublicKey(bytes.fromhex(value), raw=True)"""
    b = V.unhex(value_hex)
    return (secp_parse_ok(b), secp_parse(b))


def sterm(v):
    """String term of a field that is a str (concrete, Sym str or JSON value known to be a str)"""
    if isinstance(v, JVal):
        return V.j_sval(v.term)
    return to_term(v)


def value_term(name_t, msg_t):
    """get_value(): the part of the message docs/attestation.md designates per element kind, in hex"""
    b = V.unhex(msg_t)
    n = tm.Len(b)
    last65 = tm.Extract(b, tm.Max(tm.Sub(n, tm.Int(65)), tm.Int(0)), tm.Int(65))
    rest = tm.Extract(b, tm.Int(1), tm.Sub(n, tm.Int(1)))
    return tm.Ite(tm.Eq(name_t, tm.Str("device")), V.hexs(last65),
                  tm.Ite(tm.Eq(name_t, tm.Str("attestation")), V.hexs(rest), V.hexs(b)))


def elem_fields(st, obj):
    f = st.fields(obj)
    tw = f.get("_tweak")
    if isinstance(tw, JVal):
        # a raw JSON value: null is Python's None
        has = tm.Not(tm.Eq(V.j_tag(tw.term), tm.Int(V.TAG_NONE)))
        tw_ok = tm.Or(tm.Eq(V.j_tag(tw.term), tm.Int(V.TAG_NONE)), tm.Eq(V.j_tag(tw.term), tm.Int(V.TAG_STR)))
        twt = tm.Ite(has, V.j_sval(tw.term), tm.Str(""))
    else:
        has, tw_ok, twt = tm.Bool(tw is not None), tm.TRUE, (sterm(tw) if tw is not None else tm.Str(""))
    def nonempty_hex(t):
        return tm.And(V.is_hex(t), tm.Lt(tm.Int(0), tm.Len(V.unhex(t))))

    def is_str(v):
        return tm.Eq(V.j_tag(v.term), tm.Int(V.TAG_STR)) if isinstance(v, JVal) else tm.TRUE
    msg, sig = sterm(f["_message"]), sterm(f["_signature"])
    wf = tm.And(tw_ok, is_str(f["_name"]), is_str(f["_message"]), is_str(f["_signature"]), nonempty_hex(msg), nonempty_hex(sig),
                tm.Implies(has, nonempty_hex(twt)))
    return dict(name=sterm(f["_name"]), message=msg, signature=sig,
                signed_by=f["_signed_by"], has_tweak=has, tweak=twt, tweak_wf=wf)


def sb_is(sb, s):
    """signed_by == s (a str constant) as a term"""
    if isinstance(sb, JVal):
        return tm.And(tm.Eq(V.j_tag(sb.term), tm.Int(V.TAG_STR)), tm.Eq(V.j_sval(sb.term), tm.Str(s)))
    if isinstance(sb, str):
        return tm.Bool(sb == s)
    if isinstance(sb, Sym) and sb.kind == "str":
        return tm.Eq(sb.term, tm.Str(s))
    return tm.FALSE


def entries(st, m):
    """{name: (present term, field dict)} of a finite map / concrete dict of elements"""
    out = {}
    if isinstance(m, FiniteMap):
        for k, (p, o) in st.cell(m.oid).items():
            out[k] = (p, elem_fields(st, o))
    elif isinstance(m, PyDict):
        for k, o in st.cell(m.oid).items():
            out[k] = (tm.TRUE, elem_fields(st, o))
    else:
        raise Unsupported("elements map %r" % (m,))
    return out


@native
def elements_wf(ip, st, m):
    """every present entry is stored under its own name (one of the four valid names) and carries what the element
    constructor checked: message, signature and the optional tweak are non-empty hex strings"""
    conj = []
    for k, (p, f) in entries(st, m).items():
        conj.append(tm.Implies(p, tm.And(tm.Eq(f["name"], tm.Str(k)), f["tweak_wf"])))
    return as_value("bool", tm.And(*conj))


def reach(ent, n, fuel):
    """element n reaches the root of trust within `fuel` further steps through present elements"""
    p, f = ent[n]
    direct = sb_is(f["signed_by"], "root")
    if fuel == 0:
        return tm.And(p, direct)
    steps = [tm.And(sb_is(f["signed_by"], m), reach(ent, m, fuel - 1)) for m in ent if m != n]
    return tm.And(p, tm.Or(direct, *steps))


@native
def target_ok(ip, st, m, t):
    """target t (a JSON value) names a present element that has a finite, cycle-free path to the root"""
    ent = entries(st, m)
    tt = t.term if isinstance(t, JVal) else None
    parts = []
    for n in ent:
        is_n = sb_is(t, n)
        parts.append(tm.And(is_n, reach(ent, n, len(ent) - 1)))
    return as_value("bool", tm.Or(*parts))


def root_key_of(st, root):
    """the key of a root of trust: the key its constructor parsed (HSMCertificateRoot.pubkey)"""
    if isinstance(root, Obj) and root.cls.name == "HSMCertificateRoot":
        pk = st.fields(root).get("pubkey")
        if isinstance(pk, Opaque) and pk.tag == "secp_pub":
            return pk.attrs["key"]
    raise Unsupported("not a root of trust with a parsed key: %r" % (root,))


def keyterm(st, certifier):
    if isinstance(certifier, Obj) and certifier.cls.name == "HSMCertificateRoot":
        return (tm.TRUE, root_key_of(st, certifier))
    f = elem_fields(st, certifier)
    return pubkey_of(value_term(f["name"], f["message"]))


@native
def link_ok(ip, st, element, certifier):
    f = elem_fields(st, element)
    return as_value("bool", link_valid(f["message"], f["signature"], f["has_tweak"], f["tweak"], keyterm(st, certifier)))


def verdict_terms(ent, n, fuel, rk):
    """(all links from the root key rk down to n verify, name of the first failing element from the root)"""
    p, f = ent[n]

    def link(key):
        return link_valid(f["message"], f["signature"], f["has_tweak"], f["tweak"], key)
    top = link((tm.TRUE, rk))
    ok, fail = top, tm.Ite(top, tm.Str(""), tm.Str(n))
    if fuel > 0:
        for m in ent:
            if m == n:
                continue
            cond = sb_is(f["signed_by"], m)
            okm, failm = verdict_terms(ent, m, fuel - 1, rk)
            pm, fm = ent[m]
            lk = link(pubkey_of(value_term(fm["name"], fm["message"])))
            ok = tm.Ite(cond, tm.And(okm, lk), ok)
            fail = tm.Ite(cond, tm.Ite(okm, tm.Ite(lk, tm.Str(""), tm.Str(n)), failm), fail)
    return ok, fail


@native
def verdict_of(ip, st, m, t, root):
    """(valid, failing element name, value, has_tweak, tweak) the specification assigns to target t"""
    ent = entries(st, m)
    rk = root_key_of(st, root)
    ok, fail, val, ht, tw = tm.FALSE, tm.Str(""), tm.Str(""), tm.FALSE, tm.Str("")
    for n in ent:
        c = sb_is(t, n)
        okn, failn = verdict_terms(ent, n, len(ent) - 1, rk)
        p, f = ent[n]
        ok = tm.Ite(c, okn, ok)
        fail = tm.Ite(c, failn, fail)
        val = tm.Ite(c, value_term(f["name"], f["message"]), val)
        ht = tm.Ite(c, f["has_tweak"], ht)
        tw = tm.Ite(c, f["tweak"], tw)
    return (as_value("bool", ok), as_value("str", fail), as_value("str", val), as_value("bool", ht), as_value("str", tw))


def present_under(st, m, t):
    """the finite map / dict m has an entry under the raw JSON key t"""
    parts = []
    if isinstance(m, FiniteMap):
        for k, (p, o) in st.cell(m.oid).items():
            parts.append(tm.And(sb_is(t, k), p))
    elif isinstance(m, PyDict):
        for k in st.cell(m.oid):
            parts.append(sb_is(t, k))
    else:
        raise Unsupported("result map %r" % (m,))
    return tm.Or(*parts)


def tuple_matches(st, val, spec):
    """does the tuple the code stored say what the specification says?  (True, value, tweak) | (False, failing name)"""
    ok, fail, value, ht, tw = spec
    if not isinstance(val, tuple) or len(val) not in (2, 3):
        return tm.FALSE
    b = val[0]
    bt = tm.Bool(b) if isinstance(b, bool) else (b.term if isinstance(b, Sym) and b.kind == "bool" else None)
    if bt is None:
        return tm.FALSE
    neg = tm.FALSE
    pos = tm.FALSE
    if len(val) == 2 or is_sym(b):
        neg = tm.And(tm.Not(ok), tm.Eq(sterm(val[1]), fail))
    if len(val) == 3:
        t = val[2]
        if t is None:
            tw_ok = tm.Not(ht)
        elif isinstance(t, JVal):
            isnone = tm.Eq(V.j_tag(t.term), tm.Int(V.TAG_NONE))
            tw_ok = tm.And(tm.Eq(ht, tm.Not(isnone)), tm.Implies(ht, tm.And(tm.Eq(V.j_tag(t.term), tm.Int(V.TAG_STR)),
                                                                            tm.Eq(V.j_sval(t.term), tw))))
        else:
            tw_ok = tm.And(ht, tm.Eq(sterm(t), tw))
        pos = tm.And(ok, tm.Eq(sterm(val[1]), value), tw_ok)
    return tm.Ite(bt, pos, neg)


def verdict_for(ent, n, rk):
    okn, failn = verdict_terms(ent, n, len(ent) - 1, rk)
    p, f = ent[n]
    return (okn, failn, value_term(f["name"], f["message"]), f["has_tweak"], f["tweak"])


@native
def results_wf(ip, st, res, m, root):
    """every entry of the result map is the verdict the specification assigns to the element of that name"""
    ent = entries(st, m)
    rk = root_key_of(st, root)
    conj = []
    if isinstance(res, FiniteMap):
        items = [(k, p, v) for k, (p, v) in st.cell(res.oid).items()]
    elif isinstance(res, PyDict):
        items = [(k, tm.TRUE, v) for k, v in st.cell(res.oid).items()]
    else:
        raise Unsupported("result map %r" % (res,))
    for k, p, v in items:
        if k not in ent:
            conj.append(tm.Not(p))
            continue
        # (a verdict is only ever stored for a name looked up in the element map)
        conj.append(tm.Implies(p, tm.And(ent[k][0], tuple_matches(st, v, verdict_for(ent, k, rk)))))
    return as_value("bool", tm.And(*conj))


@native
def has_verdict(ip, st, res, t):
    return as_value("bool", present_under(st, res, t))


@native
def value_of(ip, st, element):
    f = elem_fields(st, element)
    return as_value("str", value_term(f["name"], f["message"]))


@native
def no_tweak(ip, st, tw):
    """the element declares no tweak: Python's None, or (in a caller's abstract view of the field) JSON null"""
    if tw is None:
        return True
    if isinstance(tw, JVal):
        return as_value("bool", tm.Eq(V.j_tag(tw.term), tm.Int(V.TAG_NONE)))
    return False


@native
def element_wf(ip, st, element):
    """what the element constructor checked (or: the value is the root of trust, which has nothing to check)"""
    if isinstance(element, Obj) and element.cls.name == "HSMCertificateRoot":
        return True
    f = elem_fields(st, element)
    return as_value("bool", tm.And(f["tweak_wf"], tm.Or(*[tm.Eq(f["name"], tm.Str(n)) for n in NAMES])))


# ------------------------------------------------------------------------------------------ library externals (A-CRYPTO)
def _register_crypto():
    from pyvc import interp as I

    def lib_error(st, what):
        return Raise(I.make_exc(st, "Exception", what))

    def _new_pubkey(ip, st, cls, args, kwargs):
        b = args[0] if args else kwargs.get("pubkey")
        if kind_of(b) != "bytes":
            yield st, lib_error(st, "PublicKey of a non-bytes value")
            return
        bt = to_term(b)
        for st1, ok in ip.branch(st, as_value("bool", secp_parse_ok(bt))):
            if ok:
                yield st1, Opaque("secp_pub", dict(key=secp_parse(bt)))
            else:
                yield st1, lib_error(st1, "invalid public key")
    LM.ext_class("secp256k1.PublicKey")
    LM.CLASS_HOOKS["secp256k1.PublicKey"] = _new_pubkey

    @LM.opaque_method("secp_pub", "serialize")
    def _serialize(ip, st, recv, args, kwargs):
        comp = args[0] if args else kwargs.get("compressed", True)
        if is_sym(comp):
            raise Unsupported("symbolic compression flag")
        yield st, Sym("bytes", secp_ser(recv.attrs["key"], tm.Bool(bool(comp))))

    @LM.opaque_method("secp_pub", "tweak_add")
    def _tweak_add(ip, st, recv, args, kwargs):
        (t,) = args
        if kind_of(t) != "bytes":
            yield st, lib_error(st, "tweak must be bytes")
            return
        k, tt = recv.attrs["key"], to_term(t)
        for st1, ok in ip.branch(st, as_value("bool", secp_tweak_ok(k, tt))):
            if ok:
                yield st1, Opaque("secp_pub", dict(key=secp_tweak(k, tt)))
            else:
                yield st1, lib_error(st1, "invalid tweak")

    @LM.opaque_method("secp_pub", "ecdsa_deserialize")
    def _deser(ip, st, recv, args, kwargs):
        (d,) = args
        if kind_of(d) != "bytes":
            yield st, lib_error(st, "signature must be bytes")
            return
        dt = to_term(d)
        for st1, ok in ip.branch(st, as_value("bool", secp_deser_ok(dt))):
            if ok:
                yield st1, Opaque("secp_sig", dict(der=dt))
            else:
                yield st1, lib_error(st1, "invalid DER signature")

    @LM.opaque_method("secp_pub", "ecdsa_verify")
    def _verify(ip, st, recv, args, kwargs):
        msg, sig = args[0], args[1]
        if kind_of(msg) != "bytes" or not (isinstance(sig, Opaque) and sig.tag == "secp_sig"):
            yield st, lib_error(st, "bad argument types")
            return
        yield st, as_value("bool", secp_verify(recv.attrs["key"], to_term(msg), sig.attrs["der"]))

    @LM.register_external("hmac.new")
    def _hmac_new(ip, st, args, kwargs):
        key, msg = args[0], (args[1] if len(args) > 1 else kwargs.get("msg"))
        if kind_of(key) != "bytes" or kind_of(msg) != "bytes":
            yield st, lib_error(st, "hmac of non-bytes")
            return
        yield st, Opaque("hmac", dict(mac=hmac_sha256(to_term(key), to_term(msg))))

    @LM.opaque_method("hmac", "digest")
    def _hmac_digest(ip, st, recv, args, kwargs):
        yield st, Sym("bytes", recv.attrs["mac"])


_register_crypto()
ROOT_PUBKEY = Opaque("secp_pub", dict(key=root_key()))


@native
def chain_valid(ip, st, m, name, root):
    """the specification's verdict for the element `name` (a str constant): every link from the root key down verifies"""
    ent = entries(st, m)
    if name not in ent:
        return False
    p, f = ent[name]
    return as_value("bool", tm.And(p, verdict_for(ent, name, root_key_of(st, root))[0]))


@native
def signed_message(ip, st, m, name):
    """the bytes the verdict reports for `name`: the designated part of its signed message"""
    ent = entries(st, m)
    p, f = ent[name]
    return as_value("bytes", V.unhex(value_term(f["name"], f["message"])))


@native
def signed_tweak(ip, st, m, name):
    """the tweak the element `name` declares (bytes): for ui / signer it is the hash of the installed application"""
    ent = entries(st, m)
    p, f = ent[name]
    return as_value("bytes", V.unhex(f["tweak"]))

"""A-BTC: the parts of python-bitcoinlib (bitcoin.core) the middleware relies on, as assumed contracts.
The library is ABSENT from this sandbox, so nothing here can be cross-checked against it."""
from pyvc import terms as tm
from pyvc.values import Sym, to_term, as_value, kind_of, Unsupported
from pyvc import libmodels as LM


def varint_term(t):
    return tm.Ite(tm.Lt(t, tm.Int(0xfd)), tm.SeqUnit(t),
                  tm.Ite(tm.Le(t, tm.Int(0xffff)), tm.Concat(tm.SeqUnit(tm.Int(0xfd)), LM.to_bytes_term(t, 2, "little")),
                         tm.Ite(tm.Le(t, tm.Int(0xffffffff)),
                                tm.Concat(tm.SeqUnit(tm.Int(0xfe)), LM.to_bytes_term(t, 4, "little")),
                                tm.Concat(tm.SeqUnit(tm.Int(0xff)), LM.to_bytes_term(t, 8, "little")))))


@LM.register_external("bitcoin.core.VarIntSerializer.serialize")
def varint_serialize(ip, st, args, kwargs):
    (v,) = args
    if kind_of(v) != "int":
        raise Unsupported("VarIntSerializer.serialize(non-int)")
    yield st, as_value("bytes", varint_term(to_term(v)))

"""A-FS: contract of open/write/read on the PIN file and of os.path.isfile (failure at any call; "wb" truncates)."""
from pyvc import terms as tm
from pyvc.terms import INT, BOOL, STR, BYTES
from pyvc.values import Sym, Opaque, Raise, Unsupported, to_term, as_value, kind_of, is_sym
from pyvc import libmodels as LM
from pyvc import interp as I
from pyvc import verify as VF
from pyvc.verify import BYTES_, INT_, BOOL_

VF.GHOST_SCHEMA.update({
    "pinfile": BYTES_,       # content of the PIN file (the only file the manager writes)
    "pinfile_exists": BOOL_,
    "fs_writes": INT_,       # number of open-for-write calls
})


# only the file-system externals (and contracts that name them in ghost_frame) change these
VF.GHOST_LOCAL.update({"pinfile", "pinfile_exists", "fs_writes"})


@LM.register_external("builtins.open")
def _open(ip, st, args, kwargs):
    path = args[0]
    mode = args[1] if len(args) > 1 else kwargs.get("mode", "r")
    if is_sym(mode):
        raise Unsupported("open with symbolic mode")
    # failure: nothing changes
    s = st.fork()
    yield s, Raise(I.make_exc(s, "OSError", Sym("str", tm.Fresh("oserror", STR))))
    if "w" in mode:
        st.ghost["fs_writes"] = as_value("int", tm.Add(to_term(st.ghost["fs_writes"]), tm.Int(1)))
        st.ghost["pinfile"] = b""              # O_TRUNC
        st.ghost["pinfile_exists"] = True
        yield st, Opaque("file:w" if "b" in mode else "file:wt", {"path": path})
    else:
        yield st, Opaque("file:r", {"path": path})


@LM.opaque_method("file:wt", "write")
def _write_text(ip, st, recv, args, kwargs):
    """text mode: a str is written (as its UTF-8 bytes in the write log); failure at any call"""
    data = args[0]
    if kind_of(data) != "str":
        yield st, Raise(I.make_exc(st, "TypeError", "write() argument must be str"))
        return
    s = st.fork()
    yield s, Raise(I.make_exc(s, "OSError", Sym("str", tm.Fresh("oserror", STR))))
    rec = LM.EXTERNALS.get("file.record_write")
    if rec is not None and "nwrites" in st.ghost:
        rec(st, recv.attrs["path"], Sym("bytes", LM.utf8(to_term(data))))
    yield st, as_value("int", tm.Len(to_term(data)))


def _close(ip, st, recv, args, kwargs):
    yield st, None


for _tag in ("file:w", "file:wt", "file:r"):
    LM.OPAQUE_METHODS[(_tag, "close")] = _close


@LM.opaque_method("file:w", "write")
def _write(ip, st, recv, args, kwargs):
    data = args[0]
    if kind_of(data) != "bytes":
        yield st, Raise(I.make_exc(st, "TypeError", "a bytes-like object is required"))
        return
    s = st.fork()
    n = tm.Fresh("written", INT)
    dt = to_term(data)
    s.assume(tm.And(tm.Le(tm.Int(0), n), tm.Le(n, tm.Len(dt))))
    s.ghost["pinfile"] = as_value("bytes", tm.Extract(dt, tm.Int(0), n))     # partial write
    yield s, Raise(I.make_exc(s, "OSError", Sym("str", tm.Fresh("oserror", STR))))
    st.ghost["pinfile"] = data
    rec = LM.EXTERNALS.get("file.record_write")
    if rec is not None and "nwrites" in st.ghost:
        rec(st, recv.attrs["path"], data)         # (path, data) log of completed writes, used by C19
    yield st, as_value("int", tm.Len(dt))


@LM.opaque_method("file:r", "read")
def _read(ip, st, recv, args, kwargs):
    s = st.fork()
    yield s, Raise(I.make_exc(s, "OSError", Sym("str", tm.Fresh("oserror", STR))))
    yield st, st.ghost["pinfile"]


@LM.register_external("os.path.isfile")
def _isfile(ip, st, args, kwargs):
    yield st, st.ghost["pinfile_exists"]


_splitext_root = tm.FunDecl("os.path.splitext.root", [STR], STR)
_splitext_ext = tm.FunDecl("os.path.splitext.ext", [STR], STR)


@LM.register_external("os.path.splitext")
def _splitext(ip, st, args, kwargs):
    (p,) = args
    if kind_of(p) != "str":
        yield st, Raise(I.make_exc(st, "TypeError", "expected str, bytes or os.PathLike object"))
        return
    if not is_sym(p):
        import os
        yield st, os.path.splitext(p)
        return
    yield st, (Sym("str", _splitext_root(to_term(p))), Sym("str", _splitext_ext(to_term(p))))

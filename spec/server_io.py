"""A-LIB for comm/server.py: the request line, json.loads / json.dumps, the reply socket."""
from pyvc import terms as tm
from pyvc.terms import INT, BOOL, STR, BYTES, J
from pyvc.values import Sym, JVal, PyDict, Opaque, Raise, Unsupported, to_term, as_value, kind_of, is_sym
from pyvc import libmodels as LM
from pyvc import interp as I
from pyvc import verify as VF
from pyvc.verify import INT_, BOOL_, BYTES_

VF.GHOST_SCHEMA.update({
    "writes": INT_,            # completed wfile.write calls
    "reply": BYTES_,           # first chunk written to the client in this request (the JSON text)
    "reply_started": BOOL_,
})

# only wfile.write changes these; no function under contract other than _RequestHandler's own code writes replies
VF.GHOST_LOCAL.update({"writes", "reply", "reply_started"})

json_reply_ok = tm.FunDecl("json.object_with_int_errorcode", [BYTES], BOOL)
ValueError_ = I.builtin_exc("ValueError")
JSONDecodeError = LM.ext_class("json.decoder.JSONDecodeError", bases=[ValueError_], is_exc=True)
LM.EXTERNAL_VALUES["json.JSONDecodeError"] = JSONDecodeError


@LM.register_external("json.loads")
def json_loads(ip, st, args, kwargs):
    """any JSON value, or: JSONDecodeError (malformed), RecursionError (deep nesting), ValueError that is not a
    JSONDecodeError (integer literal beyond the interpreter's digit limit)"""
    for cls in (JSONDecodeError, "RecursionError", "ValueError"):
        s = st.fork()
        yield s, Raise(I.make_exc(s, cls, Sym("str", tm.Fresh("jsonerr", STR))))
    yield st, JVal(tm.Fresh("request", J), st.alloc({}))


@LM.register_external("json.dumps")
def json_dumps(ip, st, args, kwargs):
    d = args[0]
    if set(kwargs) - {"indent", "sort_keys"}:      # layout only: the text is an arbitrary string that is / is not a well-formed reply
        raise Unsupported("json.dumps(%s) is not modelled" % ", ".join(sorted(kwargs)))
    if not isinstance(d, PyDict):
        raise Unsupported("json.dumps of %r" % (d,))
    cell = st.cell(d.oid)
    good = "errorcode" in cell and kind_of(cell["errorcode"]) == "int" and not isinstance(cell["errorcode"], bool)
    s = Sym("str", tm.Fresh("json_text", STR))
    st.assume(tm.Eq(json_reply_ok(LM.utf8(s.term)), tm.Bool(good)))
    yield st, s


@LM.opaque_method("rfile", "readline")
def readline(ip, st, recv, args, kwargs):
    yield st, Sym("bytes", tm.Fresh("line", BYTES))


@LM.register_external("bytes.strip")
def bytes_strip(ip, st, args, kwargs):
    yield st, Sym("bytes", tm.Fresh("stripped", BYTES))


@LM.register_external("bytes.decode")
def bytes_decode(ip, st, args, kwargs):
    s = st.fork()
    yield s, Raise(I.make_exc(s, "UnicodeDecodeError", "utf-8"))
    yield st, Sym("str", tm.Fresh("decoded", STR))


@LM.opaque_method("wfile", "write")
def wfile_write(ip, st, recv, args, kwargs):
    data = args[0]
    s = st.fork()
    yield s, Raise(I.make_exc(s, "OSError", Sym("str", tm.Fresh("oserror", STR))))
    started = st.ghost["reply_started"]
    if started is False or (isinstance(started, Sym) and False):
        pass
    if started is False:
        st.ghost["reply"] = data
        st.ghost["reply_started"] = True
    elif isinstance(started, Sym):
        st.ghost["reply"] = as_value("bytes", tm.Ite(started.term, to_term(st.ghost["reply"]), to_term(data)))
        st.ghost["reply_started"] = True
    st.ghost["writes"] = as_value("int", tm.Add(to_term(st.ghost["writes"]), tm.Int(1)))
    yield st, None


@VF.native
def reply_is_json_object_with_int_errorcode(ip, st, g):
    return as_value("bool", json_reply_ok(to_term(g.attrs["reply"])))

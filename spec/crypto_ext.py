"""A-CRYPTO (P-256 / ecdsa package) as assumed contracts over uninterpreted functions - only what the version-2
certificate elements use when they are written back to a file:
  ecdsa.VerifyingKey.from_string(b, curve)   raises (MalformedPointError ...) or yields the key p256.key(b)
  key.to_string(enc)                         bytes that parse back to the same key: p256.key(to_string(k, enc)) == k
"""
from pyvc import terms as tm
from pyvc.terms import INT, BOOL, STR, BYTES
from pyvc.values import Sym, Opaque, Raise, Unsupported, to_term, as_value, kind_of, is_sym
from pyvc import libmodels as LM
from pyvc import interp as I
from pyvc.verify import native

P256 = "P256Key"
tm.USORTS.add(P256)
p256_key = tm.FunDecl("p256.key", [BYTES], P256)
p256_ok = tm.FunDecl("p256.is_point", [BYTES], BOOL)
p256_str = tm.FunDecl("p256.to_string", [P256, STR], BYTES)
k1_key = tm.FunDecl("secp256k1.ecdsa_key", [BYTES], P256)       # (same carrier sort: an abstract verifying key)
k1_ok = tm.FunDecl("secp256k1.is_point", [BYTES], BOOL)

Exception_ = I.builtin_exc("Exception")
Malformed = LM.ext_class("ecdsa.keys.MalformedPointError", bases=[Exception_], is_exc=True)
LM.EXTERNAL_VALUES["ecdsa.NIST256p"] = Opaque("curve:NIST256p")
LM.EXTERNAL_VALUES["ecdsa.SECP256k1"] = Opaque("curve:SECP256k1")


@LM.register_external("ecdsa.VerifyingKey.from_string")
def _from_string(ip, st, args, kwargs):
    b = args[0]
    curve = kwargs.get("curve", args[1] if len(args) > 1 else None)
    if not (isinstance(curve, Opaque) and curve.tag in ("curve:NIST256p", "curve:SECP256k1")) or set(kwargs) - {"curve"}:
        raise Unsupported("VerifyingKey.from_string with a curve other than ecdsa.NIST256p / SECP256k1 (or further keyword arguments) is not modelled")
    if curve.tag == "curve:SECP256k1":
        # a key on the other curve: its own pair of uninterpreted functions, so that nothing stated about P-256 keys
        # (C07: the attestation key and the certifier's key must be P-256 points) is true of it by accident
        bt = to_term(b) if kind_of(b) == "bytes" else None
        if bt is None:
            raise Unsupported("VerifyingKey.from_string of a non-bytes value")
        for st1, ok in ip.branch(st, as_value("bool", k1_ok(bt))):
            if ok:
                yield st1, Opaque("p256key", dict(key=k1_key(bt)))
            else:
                yield st1, Raise(st1.new_obj(Malformed, {"args": ("malformed point",)}))
        return
    if kind_of(b) != "bytes":
        raise Unsupported("VerifyingKey.from_string of a non-bytes value")
    bt = to_term(b)
    for st1, ok in ip.branch(st, as_value("bool", p256_ok(bt))):
        if ok:
            yield st1, Opaque("p256key", dict(key=p256_key(bt)))
        else:
            yield st1, Raise(st1.new_obj(Malformed, {"args": ("malformed point",)}))


@LM.opaque_method("p256key", "to_string")
def _to_string(ip, st, recv, args, kwargs):
    enc = args[0] if args else kwargs.get("encoding", "raw")
    if is_sym(enc):
        raise Unsupported("symbolic key encoding")
    out = p256_str(recv.attrs["key"], tm.Str(enc))
    st.assume(p256_ok(out), axiom=True)
    st.assume(tm.Eq(p256_key(out), recv.attrs["key"]), axiom=True)
    yield st, Sym("bytes", out)


@native
def same_p256_key(ip, st, a, b):
    """the two byte strings denote the same P-256 public key"""
    return as_value("bool", tm.Eq(p256_key(to_term(a)), p256_key(to_term(b))))


# ------------------------------------------------------------------------------------------- version-2 (SGX) elements
from spec.hash_ext import sha256_term       # noqa: E402
from pyvc import verify as VF               # noqa: E402
from pyvc.verify import OPAQUE, RAW, BOOL_, INT_, BYTES_   # noqa: E402

p256_verifies = tm.FunDecl("p256.verifies_digest", [P256, BYTES, BYTES], BOOL)     # key.verify_digest(sig, digest, sigdecode_der)
LM.EXTERNAL_VALUES["ecdsa.util.sigdecode_der"] = Opaque("sigdecode_der")
BadSignature = LM.ext_class("ecdsa.keys.BadSignatureError", bases=[Exception_], is_exc=True)


@LM.opaque_method("p256key", "verify_digest")
def _verify_digest(ip, st, recv, args, kwargs):
    sig, digest = args[0], args[1]
    if kind_of(sig) != "bytes" or kind_of(digest) != "bytes":
        yield st, Raise(I.make_exc(st, "Exception", "bad argument types"))
        return
    ok = p256_verifies(recv.attrs["key"], to_term(sig), to_term(digest))
    # the ecdsa package returns True for a good signature and RAISES BadSignatureError (or a DER error) otherwise
    for st1, b in ip.branch(st, as_value("bool", ok)):
        if b:
            yield st1, True
        else:
            yield st1, Raise(st1.new_obj(BadSignature, {"args": ("Signature verification failed",)}))


# an abstract certifier of a version-2 element: get_pubkey() raises or yields its P-256 key
CERTIFIER = OPAQUE("v2certifier", key=RAW(P256), has_key=BOOL_)


@LM.opaque_method("v2certifier", "get_pubkey")
def _certifier_get_pubkey(ip, st, recv, args, kwargs):
    for st1, b in ip.branch(st, recv.attrs["has_key"]):
        if b:
            yield st1, Opaque("p256key", dict(key=to_term(recv.attrs["key"])))
        else:
            yield st1, Raise(I.make_exc(st1, "ValueError", "Error gathering public key from certificate"))


@native
def certifier_signed(ip, st, certifier, sig, digest):
    """the certifier has a P-256 key and `sig` is a valid (DER) signature of `digest` under it"""
    a = certifier.attrs
    return as_value("bool", tm.And(to_term(a["has_key"]), p256_verifies(to_term(a["key"]), to_term(sig), to_term(digest))))


@native
def is_p256_point(ip, st, b):
    return as_value("bool", p256_ok(to_term(b)))


@native
def p256_raw(ip, st, b):
    """key.to_string(): the raw (x || y) encoding of the key that the byte string b denotes"""
    k = p256_key(to_term(b))
    out = p256_str(k, tm.Str("raw"))
    return Sym("bytes", out)


@native
def is_key_of(ip, st, k, b):
    """k is the ecdsa verifying key that the byte string b denotes"""
    if not (isinstance(k, Opaque) and k.tag == "p256key"):
        return False
    return as_value("bool", tm.Eq(k.attrs["key"], p256_key(to_term(b))))

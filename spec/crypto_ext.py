"""A-CRYPTO (P-256 / ecdsa package) as assumed contracts over uninterpreted functions - only what the version-2
certificate elements use when they are written back to a file:
  ecdsa.VerifyingKey.from_string(b, curve)   raises (MalformedPointError ...) or yields the key p256.key(b)
  key.to_string(enc)                         bytes that parse back to the same key: p256.key(to_string(k, enc)) == k
"""
from pyvc import terms as tm
from pyvc.terms import INT, BOOL, STR, BYTES
from pyvc.values import Sym, Opaque, Raise, Unsupported, to_term, as_value, kind_of, is_sym
from pyvc import libmodels as LM
from pyvc import interp as I
from pyvc.verify import native

P256 = "P256Key"
tm.USORTS.add(P256)
p256_key = tm.FunDecl("p256.key", [BYTES], P256)
p256_ok = tm.FunDecl("p256.is_point", [BYTES], BOOL)
p256_str = tm.FunDecl("p256.to_string", [P256, STR], BYTES)

Exception_ = I.builtin_exc("Exception")
Malformed = LM.ext_class("ecdsa.keys.MalformedPointError", bases=[Exception_], is_exc=True)
LM.EXTERNAL_VALUES["ecdsa.NIST256p"] = Opaque("curve:NIST256p")
LM.EXTERNAL_VALUES["ecdsa.SECP256k1"] = Opaque("curve:SECP256k1")


@LM.register_external("ecdsa.VerifyingKey.from_string")
def _from_string(ip, st, args, kwargs):
    b = args[0]
    if kind_of(b) != "bytes":
        raise Unsupported("VerifyingKey.from_string of a non-bytes value")
    bt = to_term(b)
    for st1, ok in ip.branch(st, as_value("bool", p256_ok(bt))):
        if ok:
            yield st1, Opaque("p256key", dict(key=p256_key(bt)))
        else:
            yield st1, Raise(st1.new_obj(Malformed, {"args": ("malformed point",)}))


@LM.opaque_method("p256key", "to_string")
def _to_string(ip, st, recv, args, kwargs):
    enc = args[0] if args else kwargs.get("encoding", "raw")
    if is_sym(enc):
        raise Unsupported("symbolic key encoding")
    out = p256_str(recv.attrs["key"], tm.Str(enc))
    st.assume(p256_ok(out), axiom=True)
    st.assume(tm.Eq(p256_key(out), recv.attrs["key"]), axiom=True)
    yield st, Sym("bytes", out)


@native
def same_p256_key(ip, st, a, b):
    """the two byte strings denote the same P-256 public key"""
    return as_value("bool", tm.Eq(p256_key(to_term(a)), p256_key(to_term(b))))

"""The operator's public-keys map as load_pubkeys returns it (a dict path -> secp256k1.PublicKey), abstractly:
   paths(m)      its keys in sorted (lexicographic) order - what sorted(m.keys()) yields          [A-SORT: sorted() sorts]
   key(m, p)     the public key stored under path p
   has(m, p)     p is one of its paths
Supported operations: len(m), m.keys(), sorted(m.keys()), m[p] for a path of the sorted list, m.items() consumed by
next(filter(lambda pair: pair[0] == CONST, m.items()), default)."""
import ast

from pyvc import terms as tm
from pyvc.terms import INT, BOOL, STR, BYTES
from pyvc.values import Sym, Opaque, Raise, Unsupported, FuncVal, to_term, as_value, kind_of, is_sym, kind_sort
from pyvc import libmodels as LM
from pyvc import lib as L
from pyvc import interp as I
from pyvc.verify import native, RecSpec, OPAQUE, RAW
from spec.certs import KEY, secp_ser

PKMAP = "PubKeysMap"
tm.USORTS.add(PKMAP)
PATHS = kind_sort(("list", "str"))
pk_paths = tm.FunDecl("pubkeys.sorted_paths", [PKMAP], PATHS)
pk_key = tm.FunDecl("pubkeys.key", [PKMAP, STR], KEY)
pk_has = tm.FunDecl("pubkeys.has", [PKMAP, STR], BOOL)

PUBKEYS = OPAQUE("pubkeys", m=RAW(PKMAP))


def mterm(v):
    if isinstance(v, Opaque) and v.tag == "pubkeys":
        return to_term(v.attrs["m"])
    raise Unsupported("not a public-keys map: %r" % (v,))


def paths_of(st, m):
    p = pk_paths(m)
    q = tm.BoundVar(tm.fresh_name("pq"), INT)
    st.assume(tm.ForAll([q], tm.Implies(tm.And(tm.Le(tm.Int(0), q), tm.Lt(q, tm.Len(p))), pk_has(m, tm.Nth(p, q)))), axiom=True)
    return Sym(("list", "str"), p)


@LM.opaque_method("pubkeys", "keys")
def _keys(ip, st, recv, args, kwargs):
    yield st, Opaque("pubkeys.keys", dict(m=mterm(recv)))


@LM.opaque_method("pubkeys", "items")
def _items(ip, st, recv, args, kwargs):
    yield st, Opaque("pubkeys.items", dict(m=mterm(recv)))


_prev_sorted = LM.EXTERNALS["builtins.sorted"]


def _sorted(ip, st, args, kwargs):
    xs = args[0]
    if isinstance(xs, Opaque) and xs.tag == "pubkeys.keys":
        if kwargs or len(args) > 1:
            # A-SORT describes sorted(keys) only - the paths in ascending order as strings.  With key= / reverse= the
            # order is another one, about which this model knows nothing (seed C08-3: key=lambda p: p.split("/"))
            raise Unsupported("sorted(public-key paths) with key= / reverse= is not modelled")
        yield st, paths_of(st, xs.attrs["m"])
        return
    yield from _prev_sorted(ip, st, args, kwargs)


LM.EXTERNALS["builtins.sorted"] = _sorted

_prev_len = LM.BUILTINS["len"].impl


def _len(ip, st, args, kwargs):
    if len(args) == 1 and isinstance(args[0], Opaque) and args[0].tag == "pubkeys":
        yield st, as_value("int", tm.Len(pk_paths(mterm(args[0]))))
        return
    yield from _prev_len(ip, st, args, kwargs)


LM.BUILTINS["len"].impl = _len

_prev_index = LM.Lib.index


def _index(ip, st, v, i):
    if isinstance(v, Opaque) and v.tag == "pubkeys":
        if kind_of(i) != "str":
            raise Unsupported("public-keys map indexed by a non-str")
        m = mterm(v)
        for st1, b in ip.branch(st, as_value("bool", pk_has(m, to_term(i)))):
            if b:
                yield st1, Opaque("secp_pub", dict(key=pk_key(m, to_term(i))))
            else:
                yield st1, Raise(I.make_exc(st1, "KeyError", i))
        return
    yield from _prev_index(ip, st, v, i)


LM.Lib.index = staticmethod(_index)


class LazyFilter:
    def __init__(self, func, seq):
        self.func, self.seq = func, seq

    def __deepcopy__(self, memo):
        return self


@LM.builtin("filter")
def _filter(ip, st, args, kwargs):
    f, xs = args
    if isinstance(xs, Opaque) and xs.tag == "pubkeys.items":
        yield st, LazyFilter(f, xs)
        return
    raise Unsupported("filter over %r" % (xs,))


@LM.builtin("next")
def _next(ip, st, args, kwargs):
    it = args[0]
    default = args[1] if len(args) > 1 else None
    if not (isinstance(it, LazyFilter) and isinstance(it.seq, Opaque) and it.seq.tag == "pubkeys.items") or len(args) < 2:
        raise Unsupported("next(%r)" % (it,))
    # the predicate on a generic pair (k, v): only "the key equals a constant" is understood
    m = it.seq.attrs["m"]
    k = Sym("str", tm.Fresh("pair.key", STR))
    probe = st.fork()
    res = list(ip.call(probe, it.func, [(k, Opaque("secp_pub", dict(key=pk_key(m, k.term))))], {}))
    if len(res) != 1 or isinstance(res[0][1], Raise) or not is_sym(res[0][1]):
        raise Unsupported("filter predicate over the public-keys map")
    c = res[0][1].term
    if not (c.op == "=" and (c.args[0] is k.term or c.args[1] is k.term)):
        raise Unsupported("filter predicate other than `pair[0] == constant`")
    const = c.args[1] if c.args[0] is k.term else c.args[0]
    for st1, b in ip.branch(st, as_value("bool", pk_has(m, const))):
        if b:
            yield st1, (as_value("str", const), Opaque("secp_pub", dict(key=pk_key(m, const))))
        else:
            yield st1, default


def _ser_step(m, k, prev):
    return tm.Concat(prev, secp_ser(pk_key(m, tm.Nth(pk_paths(m), k)), tm.FALSE))


# keys_blob(m, k): the uncompressed serialisations of the first k keys in path order, concatenated
keys_blob = RecSpec("pubkeys.blob", [PKMAP], BYTES, base=lambda m: tm.BytesLit(b""), step=_ser_step)


@native
def map_of(ip, st, v):
    return Sym(("raw", PKMAP), mterm(v))


@native
def n_keys(ip, st, v):
    return as_value("int", tm.Len(pk_paths(mterm(v))))


@native
def compressed_key_hex(ip, st, v, path):
    from pyvc import values as V
    return as_value("str", V.hexs(secp_ser(pk_key(mterm(v), to_term(path)), tm.TRUE)))


@native
def has_path(ip, st, v, path):
    return as_value("bool", pk_has(mterm(v), to_term(path)))

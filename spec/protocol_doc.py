"""Oracle tables transcribed / parsed from docs/protocol.md (A-DOC) and the firmware headers (A-FWTABLE).

* DOCSET[command]: the result codes docs/protocol.md lists for the command ("This operation can return ..."),
  parsed from the document on every run, plus the generic 9xx codes.
* named causes: status word -> the documented code whose *cause the documentation names*
  (docs/protocol.md "Error and success codes"), per exchange step.
"""
import os
import re

from pyvc import terms as tm
from pyvc.values import to_term, as_value
from pyvc.verify import native
from pyvc import lib as L
from . import firmware as FWT

REPO = os.environ.get("VERIF_REPO", "/repo")
DOC = os.path.join(REPO, "docs", "protocol.md")
GENERIC = [-901, -902, -903, -904, -905, -906]

_SECTION_TO_COMMAND = {
    "Get version": "version", "Sign": "sign", "Get public key": "getPubKey",
    "Advance Blockchain": "advanceBlockchain", "Reset Advance Blockchain": "resetAdvanceBlockchain",
    "Get Blockchain State": "blockchainState", "Update ancestor block": "updateAncestorBlock",
    "Get Blockchain Parameters": "blockchainParameters", "Signer heartbeat": "signerHeartbeat",
    "UI heartbeat": "uiHeartbeat",
}


def parse_docsets():
    out = {}
    cur = None
    lines = open(DOC).read().splitlines()
    for n, line in enumerate(lines):
        m = re.match(r"^### (.+?)\s*$", line)
        if m:
            cur = _SECTION_TO_COMMAND.get(m.group(1).strip())
            continue
        if cur and line.startswith("**Error codes:**"):
            text = " ".join(lines[n + 1:n + 3])
            codes = [int(x) for x in re.findall(r"`(-?\d+)`", text)]
            generic = "generic errors" in text
            if not codes:
                codes = [0]
            out[cur] = sorted(set(codes) | (set(GENERIC) if generic else set()))
            cur_done = cur
    return out


DOCSET = parse_docsets()
for _c in _SECTION_TO_COMMAND.values():
    assert _c in DOCSET, "docs/protocol.md: error codes of %s not found" % _c

# ---- named causes (A-FWTABLE): firmware enumerator -> documented code
SIGN_NAMED = {
    -103: ["ERR_AUTH_INVALID_PATH"],
    -102: ["ERR_AUTH_INVALID_TX_INPUT_INDEX", "ERR_AUTH_TX_HASH_MISMATCH", "ERR_AUTH_INVALID_TX_VERSION",
           "ERR_AUTH_INVALID_SIGHASH_COMPUTATION_MODE", "ERR_AUTH_INVALID_EXTRADATA_SIZE"],
    -101: ["ERR_AUTH_RECEIPT_RLP", "ERR_AUTH_RECEIPT_INVALID", "ERR_AUTH_NODE_INVALID_VERSION",
           "ERR_AUTH_RECEIPT_HASH_MISMATCH", "ERR_AUTH_NODE_CHAINING_MISMATCH", "ERR_AUTH_RECEIPT_ROOT_MISMATCH"],
}
BLOCK_NAMED = {
    -201: ["CHAIN_MISMATCH"],
    -202: ["MERKLE_PROOF_MISMATCH", "BTC_CB_TXN_INVALID", "MM_HASH_MISMATCH", "BTC_DIFF_MISMATCH",
           "CB_TXN_HASH_MISMATCH"],
    -203: ["ANCESTOR_TIP_MISMATCH"],
    -204: ["RLP_INVALID", "BLOCK_TOO_OLD", "BLOCK_TOO_SHORT", "PARENT_HASH_INVALID", "RECEIPT_ROOT_INVALID",
           "BLOCK_NUM_INVALID", "BLOCK_DIFF_INVALID", "UMM_ROOT_INVALID", "BTC_HEADER_INVALID",
           "MERKLE_PROOF_INVALID", "MM_RLP_LEN_MISMATCH", "MERKLE_PROOF_OVERFLOW", "CB_TXN_OVERFLOW",
           "BUFFER_OVERFLOW"],
    -205: ["BROTHERS_TOO_MANY", "BROTHER_PARENT_MISMATCH", "BROTHER_SAME_AS_BLOCK", "BROTHER_ORDER_INVALID"],
}


def sign_named_pairs(authorized):
    """[(op, sw, code)] : at the exchange step `op` the firmware can throw `sw`, whose documented cause is `code`."""
    out = []
    for op, names in FWT.SIGN_THROWS.items():
        if not authorized and op != 0x01:
            continue
        for code, causes in SIGN_NAMED.items():
            for c in causes:
                if c in names:
                    out.append((op, FWT.value(c), code))
    return out


def _named_term(pairs, op_t, sw_t):
    """documented code named for (op, sw), 0 if none"""
    r = tm.Int(0)
    for op, sw, code in pairs:
        cond = tm.Eq(sw_t, tm.Int(sw)) if op is None else tm.And(tm.Eq(op_t, tm.Int(op)), tm.Eq(sw_t, tm.Int(sw)))
        r = tm.Ite(cond, tm.Int(code), r)
    return r


@native
def sign_named(ip, st, authorized, op, sw):
    return as_value("int", _named_term(sign_named_pairs(bool(authorized)), to_term(L.int_of(op)), to_term(L.int_of(sw))))


# advance: header / brother chunk steps can produce every FAIL of bc_advance.c; META / INIT steps PROT_INVALID,
# brother-list META additionally BROTHERS_TOO_MANY (A-FWTABLE, hand attribution)
ADV_OPS_CHUNK, ADV_OPS_META = (0x04, 0x09), (0x02, 0x03, 0x07, 0x08)
UPD_OPS_CHUNK = (0x04,)


def block_named_pairs(advance):
    thrown = FWT.ADVANCE_THROWS if advance else FWT.ANCESTOR_THROWS
    chunk_ops = ADV_OPS_CHUNK if advance else UPD_OPS_CHUNK
    out = []
    for code, causes in BLOCK_NAMED.items():
        for c in causes:
            if c in thrown and code in DOCSET["advanceBlockchain" if advance else "updateAncestorBlock"]:
                for op in chunk_ops:
                    out.append((op, FWT.BC_ERR[c], code))
    if advance:
        out.append((0x07, FWT.BC_ERR["BROTHERS_TOO_MANY"], -205))
    return out


@native
def block_named(ip, st, advance, op, sw):
    return as_value("int", _named_term(block_named_pairs(bool(advance)), to_term(L.int_of(op)), to_term(L.int_of(sw))))


@native
def in_docset(ip, st, command, code):
    c = to_term(L.int_of(code))
    return as_value("bool", tm.Or(*[tm.Eq(c, tm.Int(v)) for v in DOCSET[command] + GENERIC]))


if __name__ == "__main__":
    import pprint
    pprint.pprint(DOCSET)
    pprint.pprint(sign_named_pairs(True))
    pprint.pprint(block_named_pairs(True)[:5])

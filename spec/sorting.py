"""Contract of builtins.sorted(xs, key=f) and of list(map(lambda l: sorted(l, key=f), lists)) over JSON lists
(A-LIB).  sorted returns a permutation of xs ordered by the key; it raises whatever f raises on some element.
Only what advance_blockchain needs is modelled: the result is a JSON list `r` with
    len(r) = len(xs),  sorted_perm(r, xs)   (uninterpreted: r is xs ordered ascending by key)
and element properties that every element of xs has are had by every element of r (transfer for: is a str,
is a non-empty hex string)."""
from pyvc import terms as tm
from pyvc.terms import INT, BOOL, STR, BYTES, J
from pyvc.values import Sym, JVal, Opaque, Raise, Unsupported, to_term, as_value, kind_of, is_sym
from pyvc import values as V
from pyvc import libmodels as LM
from pyvc import lib as L

sorted_perm = tm.FunDecl("sorted_by_block_hash", [J, J], BOOL)


class SortedView:
    def __init__(self, src):
        self.src = src          # J term of the list that was sorted

    def __deepcopy__(self, memo):
        return self


def transfer_facts(st, res, src):
    """permutation facts between two J list terms"""
    n = V.j_llen(src)
    st.assume(tm.Eq(V.j_tag(res), tm.Int(V.TAG_LIST)))
    st.assume(tm.Eq(V.j_llen(res), n))
    st.assume(sorted_perm(res, src))
    i = tm.BoundVar(tm.fresh_name("pi"), INT)
    k = tm.BoundVar(tm.fresh_name("pk"), INT)
    rng_i = tm.And(tm.Le(tm.Int(0), i), tm.Lt(i, n))
    rng_k = tm.And(tm.Le(tm.Int(0), k), tm.Lt(k, n))

    def is_str(t):
        return tm.Eq(V.j_tag(t), tm.Int(V.TAG_STR))

    def is_nehex(t):
        return tm.And(is_str(t), V.is_hex(V.j_sval(t)), tm.Lt(tm.Int(0), tm.Len(V.unhex(V.j_sval(t)))))
    for prop in (is_str, is_nehex):
        st.assume(tm.Implies(tm.ForAll([k], tm.Implies(rng_k, prop(V.j_lget(src, k)))),
                             tm.ForAll([i], tm.Implies(rng_i, prop(V.j_lget(res, i))))))


@LM.register_external("builtins.sorted")
def _sorted(ip, st, args, kwargs):
    xs = args[0]
    key = kwargs.get("key")
    if set(kwargs) - {"key"} or len(args) > 1:
        raise Unsupported("sorted(..., reverse=...) is not modelled")
    if not isinstance(xs, JVal):
        raise Unsupported("sorted over %r" % (xs,))
    for st1, lst in L.narrow(ip, st, xs):
        if not isinstance(lst, L.JList):
            if lst is None or kind_of(lst) in ("int", "bool") or isinstance(lst, Opaque):
                yield st1, Raise(L.mk_exc(st1, "TypeError", "object is not iterable"))
                continue
            raise Unsupported("sorted over a JSON %r" % (lst,))
        if key is not None:
            # the key function on an arbitrary element: its exceptions are sorted's exceptions
            i = tm.Fresh("sort.i", INT)
            probe = st1.fork()
            probe.assume(tm.And(tm.Le(tm.Int(0), i), tm.Lt(i, V.j_llen(lst.term))))
            for s2, r in ip.call(probe.fork(), key, [JVal(V.j_lget(lst.term, i))], {}):
                if isinstance(r, Raise):
                    s3 = st1.fork()
                    for c in s2.pc:
                        s3.assume(c)
                    if r.exc.oid in s2.heap:
                        s3.heap[r.exc.oid] = dict(s2.heap[r.exc.oid])
                    ip.count_path()
                    yield s3, r
        yield st1, SortedView(lst.term)


def map_of_sorted(ip, st, lm, normal, n, probe, i):
    """list(map(f, xs)) where f returns sorted(xs[i], ...): a fresh JSON list of sorted lists"""
    res = JVal(tm.Fresh("sorted_lists", J))
    st.assume(tm.Eq(V.j_tag(res.term), tm.Int(V.TAG_LIST)))
    st.assume(tm.Eq(V.j_llen(res.term), n))
    bv = tm.BoundVar(tm.fresh_name("mi"), INT)
    s1, r = normal[0]
    src_i = tm.substitute(r.src, {i: bv})
    body_state = st.fork()
    body_state.in_quantifier = True
    n0 = len(body_state.pc)
    transfer_facts(body_state, V.j_lget(res.term, bv), src_i)
    facts = body_state.pc[n0:]
    st.assume(tm.ForAll([bv], tm.Implies(tm.And(tm.Le(tm.Int(0), bv), tm.Lt(bv, n)), tm.And(*facts))))
    return res

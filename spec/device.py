"""The bottom of the call graph: ghost state, the external `dongle.exchange` contract and the
device well-formedness assumption A-DEV-WF (DESIGN.md Appendix B).

Ghost variables (updated ONLY here, by the contract of exchange):
  nx        number of exchanges so far
  log       sequence of APDUs sent, in order
  stream    map (cmd*256 + op) -> concatenation, in order, of the payloads (apdu[3:]) sent under
            that command/op: what the firmware reassembles under assumption A-FW
  cnt       map cmd -> number of APDUs sent with that command byte
  last_*    command / op byte of the last APDU, kind of its outcome, status word, response
"""
from pyvc import terms as tm
from pyvc.terms import INT, BOOL, STR, BYTES
from pyvc.values import Sym, Opaque, Raise, Unsupported, to_term, as_value, kind_of, is_sym
from pyvc import libmodels as LM
from pyvc import interp as I
from pyvc import verify as VF
from pyvc.verify import INT_, BYTES_, STR_, RAW, LIST, native

SEQ_BYTES = tm.SeqOf(BYTES)
ARR_STREAM = tm.ArrayOf(INT, BYTES)
ARR_CNT = tm.ArrayOf(INT, INT)

VF.GHOST_SCHEMA.update({
    "nx": INT_,
    "log": LIST(BYTES_),
    "resps": LIST(BYTES_),  # answer to each APDU of log (empty when the exchange raised)
    "stream": RAW(ARR_STREAM),
    "cnt": RAW(ARR_CNT),
    "last_cmd": INT_,
    "last_op": INT_,
    "last_exc": INT_,       # raw outcome of the last exchange: 0 answer, 1 CommException, 2 exact BaseException,
                            # 3 exact OSError, 4 any other exception
    "last_sw": INT_,        # CommException.sw
    "last_msg": STR_,       # CommException.message
    "last_nargs": INT_,     # len(exc.args) for 2/3
    "last_arg0": STR_,      # exc.args[0] for 2/3 when present
    "last_resp": BYTES_,
    "last_ans": BYTES_,     # what was appended to resps by the last exchange
    "conn": INT_,           # number of getDongle() calls (connections opened)
    "disc": INT_,           # number of dongle.close() calls
})

K_OK, K_ERR, K_TIMEOUT, K_COMM, K_OTHER = range(5)

Exception_ = I.builtin_exc("Exception")
CommException = LM.ext_class("ledgerblue.commException.CommException", bases=[Exception_], is_exc=True)
OtherDeviceError = LM.ext_class("ext.OtherDeviceError", bases=[Exception_], is_exc=True)

# ---- A-DEV-WF ---------------------------------------------------------------------------------
# "as long as the device keeps to its protocol": the shape the firmware gives its answers
# (firmware/src/powhsm/src/*.c, ledger/ui/src/*.c).  Numeric opcodes are the firmware's.
CMD_SIGN, CMD_ADVANCE, CMD_UPD_ANCESTOR, CMD_IS_ONBOARD = 0x02, 0x10, 0x30, 0x06
CMD_GET_STATE, CMD_UI_ATT, CMD_SIGNER_AUTH, CMD_GET_MODE, CMD_RETRIES = 0x20, 0x50, 0x51, 0x43, 0x45
CMD_HEARTBEAT, CMD_POWHSM_ATT = 0x60, 0x50


def der_ok_t(b):
    """well-formed DER signature as the device returns it (0x30 | 0x31 quirk of ledger/signature.py)"""
    n = tm.Len(b)

    def at(i):
        return tm.Nth(b, i if isinstance(i, tm.T) else tm.Int(i))
    rl = at(3)
    return tm.And(tm.Le(tm.Int(2), n), tm.Or(tm.Eq(at(0), tm.Int(0x30)), tm.Eq(at(0), tm.Int(0x31))),
                  tm.Le(at(1), tm.Sub(n, tm.Int(2))), tm.Le(tm.Int(4), n), tm.Eq(at(2), tm.Int(2)),
                  tm.Le(rl, tm.Sub(n, tm.Int(4))), tm.Le(tm.Int(2), tm.Sub(tm.Sub(n, tm.Int(4)), rl)),
                  tm.Eq(at(tm.Add(rl, tm.Int(4))), tm.Int(2)),
                  tm.Le(at(tm.Add(rl, tm.Int(5))), tm.Sub(tm.Sub(n, tm.Int(6)), rl)),
                  tm.Le(tm.Int(0), at(1)), tm.Le(tm.Int(0), rl), tm.Le(tm.Int(0), at(tm.Add(rl, tm.Int(5)))))


def devwf(apdu, resp):
    """A-DEV-WF as a term over the APDU sent and the response received."""
    n = tm.Len(resp)
    cmd = tm.Nth(apdu, tm.Int(1))
    op = tm.Nth(resp, tm.Int(2))

    def op_in(*vals):
        return tm.Or(*[tm.Eq(op, tm.Int(v)) for v in vals])
    four = tm.Le(tm.Int(4), n)
    return tm.And(
        tm.Le(tm.Int(3), n),
        tm.Implies(tm.And(tm.Eq(cmd, tm.Int(CMD_SIGN)), op_in(0x02, 0x04, 0x08)), four),
        tm.Implies(tm.And(tm.Eq(cmd, tm.Int(CMD_ADVANCE)), op_in(0x04, 0x09)), four),
        tm.Implies(tm.And(tm.Eq(cmd, tm.Int(CMD_UPD_ANCESTOR)), op_in(0x04)), four),
        tm.Implies(tm.Eq(cmd, tm.Int(CMD_IS_ONBOARD)), tm.Le(tm.Int(5), n)),
        tm.Implies(tm.And(tm.Eq(cmd, tm.Int(CMD_GET_STATE)), op_in(0x01)), four),
        tm.Implies(tm.And(tm.Eq(cmd, tm.Int(CMD_UI_ATT)), op_in(0x02, 0x03, 0x04)), four),
        tm.Implies(tm.Eq(cmd, tm.Int(CMD_SIGNER_AUTH)), four),
        # heartbeat: the answer to GET (op 2) carries a DER signature
        tm.Implies(tm.And(tm.Eq(cmd, tm.Int(CMD_HEARTBEAT)), tm.Le(tm.Int(3), tm.Len(apdu)),
                          tm.Eq(tm.Nth(apdu, tm.Int(2)), tm.Int(2))),
                   der_ok_t(tm.Extract(resp, tm.Int(3), tm.Sub(n, tm.Int(3))))),
        # GET_STATE: hash answers echo op and selector and carry 32 bytes; difficulty echoes op; flags are 3 bytes
        tm.Implies(tm.And(tm.Eq(cmd, tm.Int(CMD_GET_STATE)), tm.Le(tm.Int(3), tm.Len(apdu))),
                   tm.And(tm.Eq(op, tm.Nth(apdu, tm.Int(2))),
                          tm.Implies(tm.Eq(op, tm.Int(1)), tm.And(tm.Eq(n, tm.Int(36)),
                                                                   tm.Eq(tm.Nth(resp, tm.Int(3)), tm.Nth(apdu, tm.Int(3))))),
                          tm.Implies(tm.Eq(op, tm.Int(3)), tm.Eq(n, tm.Int(6))))),
        # RESET_AB answers DONE; GET_PARAMETERS answers 32 | 36 | 1 bytes with a known network id
        tm.Implies(tm.Eq(cmd, tm.Int(0x21)), tm.Eq(op, tm.Int(2))),
        tm.Implies(tm.Eq(cmd, tm.Int(0x11)),
                   tm.And(tm.Eq(n, tm.Int(72)), tm.Or(*[tm.Eq(tm.Nth(resp, tm.Int(71)), tm.Int(m)) for m in (1, 2, 3)]))),
        # GET_MODE answers one of the three modes the firmware has
        tm.Implies(tm.Eq(cmd, tm.Int(CMD_GET_MODE)),
                   tm.Or(*[tm.Eq(tm.Nth(resp, tm.Int(1)), tm.Int(m)) for m in (2, 3, 4)])),
    )


def ghost_after_send(st, apdu, resp=None):
    """ghost update for one exchange of `apdu` (a BYTES term)."""
    g = st.ghost
    cmd = tm.Nth(apdu, tm.Int(1))
    has_op = tm.Le(tm.Int(3), tm.Len(apdu))
    op = tm.Ite(has_op, tm.Nth(apdu, tm.Int(2)), tm.Int(-1))
    key = tm.Add(tm.Mul(cmd, tm.Int(256)), tm.Nth(apdu, tm.Int(2)))
    payload = tm.Extract(apdu, tm.Int(3), tm.Sub(tm.Len(apdu), tm.Int(3)))
    stream = g["stream"].term
    new_stream = tm.Ite(has_op, tm.Store(stream, key, tm.Concat(tm.Select(stream, key), payload)), stream)
    cnt = g["cnt"].term
    g["nx"] = as_value("int", tm.Add(to_term(g["nx"]), tm.Int(1)))
    g["log"] = Sym(("list", "bytes"), tm.Concat(g["log"].term, tm.SeqUnit(apdu)))
    if resp is not None:
        g["resps"] = Sym(("list", "bytes"), tm.Concat(g["resps"].term, tm.SeqUnit(resp)))
    g["stream"] = Sym(("raw", ARR_STREAM), new_stream)
    g["cnt"] = Sym(("raw", ARR_CNT), tm.Store(cnt, cmd, tm.Add(tm.Select(cnt, cmd), tm.Int(1))))
    g["last_cmd"] = as_value("int", cmd)
    g["last_op"] = as_value("int", op)


def no_answer(resps0):
    return Sym(("list", "bytes"), tm.Concat(resps0, tm.SeqUnit(tm.SeqEmpty(BYTES))))


def _set_noans(s, resps0):
    s.ghost["resps"] = no_answer(resps0)
    s.ghost["last_ans"] = b""


@LM.opaque_method("dongle", "exchange")
def exchange(ip, st, recv, args, kwargs):
    apdu = args[0]
    if kind_of(apdu) != "bytes":
        raise Unsupported("exchange of non-bytes")
    at = to_term(apdu)
    resps0 = st.ghost["resps"].term
    ghost_after_send(st, at)
    st.trace.append("exchange")
    outs = []
    # 1. CommException(message, sw): any status word, any message
    s = st.fork()
    sw = tm.Fresh("sw", INT)
    msg = tm.Fresh("commexc.message", STR)
    s.assume(tm.And(tm.Le(tm.Int(0), sw), tm.Le(sw, tm.Int(0xFFFF))))
    e = I.make_exc(s, CommException, Sym("str", msg), Sym("int", sw))
    s.fields(e, True).update({"message": Sym("str", msg), "sw": Sym("int", sw), "data": None})
    s.ghost.update(last_exc=1, last_sw=Sym("int", sw), last_msg=Sym("str", msg))
    _set_noans(s, resps0)
    outs.append((s, Raise(e)))
    # 2./3. the two exact link errors and their look-alikes: BaseException / OSError with 0,1,2 args
    for code, cname in ((2, "BaseException"), (3, "OSError")):
        for nargs in (0, 1, 2):
            s = st.fork()
            a = [Sym("str", tm.Fresh("exc.arg%d" % k, STR)) for k in range(nargs)]
            e = I.make_exc(s, cname, *a)
            s.ghost.update(last_exc=code, last_nargs=nargs)
            _set_noans(s, resps0)
            if nargs:
                s.ghost["last_arg0"] = a[0]
            outs.append((s, Raise(e)))
    # 4. any other exception class
    s = st.fork()
    e = I.make_exc(s, OtherDeviceError, Sym("str", tm.Fresh("exc.arg0", STR)))
    s.ghost.update(last_exc=4)
    _set_noans(s, resps0)
    outs.append((s, Raise(e)))
    # 5. an answer, under A-DEV-WF
    resp = tm.Fresh("resp", BYTES)
    st.assume(devwf(at, resp))
    st.ghost.update(last_exc=0, last_resp=Sym("bytes", resp), last_ans=Sym("bytes", resp),
                    resps=Sym(("list", "bytes"), tm.Concat(resps0, tm.SeqUnit(resp))))
    outs.append((st, Sym("bytes", resp)))
    for o in outs:
        ip.count_path()
        yield o


@LM.opaque_method("dongle", "close")
def dongle_close(ip, st, recv, args, kwargs):
    st.ghost["disc"] = as_value("int", tm.Add(to_term(st.ghost["disc"]), tm.Int(1)))
    s = st.fork()
    e = I.make_exc(s, CommException, Sym("str", tm.Fresh("commexc.message", STR)), Sym("int", tm.Fresh("sw", INT)))
    s.fields(e, True).update({"message": Sym("str", tm.Fresh("commexc.message", STR)), "sw": Sym("int", tm.Fresh("sw", INT))})
    yield s, Raise(e)
    yield st, None


@LM.register_external("ledgerblue.comm.getDongle")
def getDongle(ip, st, args, kwargs):
    st.ghost["conn"] = as_value("int", tm.Add(to_term(st.ghost["conn"]), tm.Int(1)))
    s = st.fork()
    m = Sym("str", tm.Fresh("commexc.message", STR))
    e = I.make_exc(s, CommException, m, Sym("int", tm.Fresh("sw", INT)))
    s.fields(e, True).update({"message": m, "sw": Sym("int", tm.Fresh("sw", INT))})
    yield s, Raise(e)
    yield st, Opaque("dongle", {"opened": True})


@LM.register_external("hid.hidapi_exit")
def hidapi_exit(ip, st, args, kwargs):
    s = st.fork()
    yield s, Raise(I.make_exc(s, OtherDeviceError, "hidapi"))
    yield st, None


# ---- classification of the raw outcome, written from the property text (C04 / C11, Appendix B) ----
def userdef(sw):
    return (0x69A0 <= sw and sw <= 0x6BFF) or sw == 0x6D00


def classify(g):
    return ite(g.last_exc == 0, K_OK,
           ite(g.last_exc == 1 and userdef(g.last_sw), K_ERR,
           ite(g.last_exc == 1 and g.last_sw == 0x6F00 and g.last_msg == "Timeout", K_TIMEOUT,
           ite((g.last_exc == 2 and g.last_nargs == 1 and g.last_arg0 == "Error while writing")
               or (g.last_exc == 3 and g.last_nargs == 1 and g.last_arg0 == "read error"), K_COMM,
               K_OTHER))))


@native
def ghost_step(ip, st, g, og, apdu):
    """g is og after exactly one exchange that sent `apdu` (frame: nothing else changed)."""
    class _S:
        pass
    tmp = _S()
    tmp.ghost = dict(og.attrs)
    ghost_after_send(tmp, to_term(apdu))
    conj = []
    for k in ("nx", "log", "stream", "cnt", "last_cmd", "last_op", "conn", "disc"):
        conj.append(tm.Eq(to_term(g.attrs[k]), to_term(tmp.ghost[k])))
    r0, r1 = to_term(og.attrs["resps"]), to_term(g.attrs["resps"])
    last = to_term(g.attrs["last_ans"])
    conj.append(tm.Eq(r1, tm.Concat(r0, tm.SeqUnit(last))))
    # the recorded answer is the returned one when there was an answer, empty otherwise
    conj.append(tm.Eq(last, tm.Ite(tm.Eq(to_term(g.attrs["last_exc"]), tm.Int(0)),
                                   to_term(g.attrs["last_resp"]), tm.SeqEmpty(BYTES))))
    return as_value("bool", tm.And(*conj))


@native
def ghost_same_log(ip, st, g, og):
    """no exchange happened between og and g"""
    conj = []
    for k in ("nx", "log", "resps", "stream", "cnt", "last_cmd", "last_op", "conn", "disc"):
        conj.append(tm.Eq(to_term(g.attrs[k]), to_term(og.attrs[k])))
    return as_value("bool", tm.And(*conj))


@native
def devwf_spec(ip, st, apdu, resp):
    return as_value("bool", devwf(to_term(apdu), to_term(resp)))


def chunk_op(command, operation):
    """(command, op) pairs under which the firmware requests data in chunks; for these A-DEV-WF
    guarantees the byte count at offset 3 of every answer that asks for more."""
    return ((command == 0x02 and (operation == 0x02 or operation == 0x04 or operation == 0x08))
            or (command == 0x10 and (operation == 0x04 or operation == 0x09))
            or (command == 0x30 and operation == 0x04))


# A-PLATFORM: the manager's entry point has called Platform.set with a valid platform before anything else
I.CLASS_OVERRIDES[("Platform", "_platform")] = "Ledger"

"""A-RLP / A-KECCAK: the `rlp` package, keccak and the SHA-256 midstate hash used by ledger/block_utils.py and
comm/pow.py, as assumed contracts over uninterpreted functions.

decode(b): raises (any exception class - the package raises DecodingError, and RecursionError / TypeError on hostile
input) or yields an *RLP value*: a byte string or a list of RLP values.  Only what block_utils needs is modelled:
the top-level value and the kind of its last element."""
from pyvc import terms as tm
from pyvc.terms import INT, BOOL, STR, BYTES
from pyvc.values import Sym, Opaque, Raise, Unsupported, to_term, as_value, kind_of, is_sym
from pyvc import libmodels as LM
from pyvc import lib as L
from pyvc import interp as I

RLPV = "RlpVal"      # uninterpreted sort of decoded RLP values
rlp_dec = tm.FunDecl("rlp.decoded", [BYTES], RLPV)                 # the value a byte string decodes to
rlp_is_list = tm.FunDecl("rlp.is_list", [RLPV], BOOL)
rlp_len = tm.FunDecl("rlp.len", [RLPV], INT)                      # number of items (list) / bytes (string)
rlp_drop = tm.FunDecl("rlp.drop_last", [RLPV, INT], RLPV)          # v[:-k]  (k >= 0)
rlp_last_bytes = tm.FunDecl("rlp.last_as_bytes", [RLPV], BYTES)    # last item, when it is a byte string
rlp_last_is_bytes = tm.FunDecl("rlp.last_is_bytes", [RLPV], BOOL)
rlp_enc = tm.FunDecl("rlp.encoded", [RLPV], BYTES)
keccak = tm.FunDecl("keccak256", [BYTES], BYTES)
cb_hash = tm.FunDecl("coinbase_tx_hash", [STR], STR)


def _declare_sort():
    # RlpVal is printed as an uninterpreted sort: reuse the J mechanism of the printer
    pass


Exception_ = I.builtin_exc("Exception")
DecodingError = LM.ext_class("rlp.exceptions.DecodingError", bases=[Exception_], is_exc=True)
LM.EXTERNAL_VALUES["rlp.DecodingError"] = DecodingError


class RlpValue:
    """a decoded RLP value held by the interpreter"""

    def __init__(self, term):
        self.term = term

    def __deepcopy__(self, memo):
        return self

    def sym_len(self, ip, st):
        n = rlp_len(self.term)
        st.assume(tm.Le(tm.Int(0), n))
        yield st, Sym("int", n)

    def sym_slice(self, ip, st, lo, hi):
        if lo is not None or is_sym(hi) or hi is None or hi >= 0:
            raise Unsupported("slice of an RLP value other than v[:-k]")
        k = -hi
        t = rlp_drop(self.term, tm.Int(k))
        st.assume(tm.Eq(rlp_len(t), tm.Max(tm.Sub(rlp_len(self.term), tm.Int(k)), tm.Int(0))))
        st.assume(tm.Eq(rlp_is_list(t), rlp_is_list(self.term)))
        yield st, RlpValue(t)

    def sym_index(self, ip, st, i):
        if i != -1:
            raise Unsupported("index into an RLP value other than v[-1]")
        n = rlp_len(self.term)
        for st1, empty in ip.branch(st, Sym("bool", tm.Le(n, tm.Int(0)))):
            if empty:
                yield st1, Raise(L.mk_exc(st1, "IndexError", "index out of range"))
                continue
            # the last item: a byte string, or something else (a nested list; an int when the value is a string)
            isb = tm.And(rlp_is_list(self.term), rlp_last_is_bytes(self.term))
            for st2, b in ip.branch(st1, Sym("bool", isb)):
                if b:
                    yield st2, Sym("bytes", rlp_last_bytes(self.term))
                else:
                    yield st2, Opaque("rlp-nonbytes-item", {"__noattr__": True})


@LM.register_external("rlp.decode")
def rlp_decode(ip, st, args, kwargs):
    (b,) = args
    if kind_of(b) != "bytes":
        raise Unsupported("rlp.decode of non-bytes")
    for cls in (DecodingError, "RecursionError", "TypeError"):
        s = st.fork()
        yield s, Raise(I.make_exc(s, cls, Sym("str", tm.Fresh("rlperr", STR))))
    yield st, RlpValue(rlp_dec(to_term(b)))


@LM.register_external("rlp.encode")
def rlp_encode(ip, st, args, kwargs):
    (v,) = args
    if not isinstance(v, RlpValue):
        raise Unsupported("rlp.encode of %r" % (v,))
    r = rlp_enc(v.term)
    # A-RLP: an encoding is never empty; a list encoding starts with 0xc0..0xff and its header is complete
    b0 = tm.Nth(r, tm.Int(0))
    st.assume(tm.Le(tm.Int(1), tm.Len(r)))
    st.assume(tm.And(tm.Le(tm.Int(0), b0), tm.Le(b0, tm.Int(255))))
    st.assume(tm.Implies(rlp_is_list(v.term), tm.And(tm.Le(tm.Int(0xc0), b0),
                                                    tm.Implies(tm.Le(tm.Int(0xf8), b0),
                                                               tm.Le(tm.Add(tm.Sub(b0, tm.Int(0xf7)), tm.Int(1)), tm.Len(r))))))
    st.assume(tm.Implies(tm.Not(rlp_is_list(v.term)), tm.Lt(b0, tm.Int(0xc0))))
    yield st, Sym("bytes", r)


@LM.register_external("comm.utils.keccak_256")
def keccak_256(ip, st, args, kwargs):
    (b,) = args
    r = keccak(to_term(b))
    st.assume(tm.Eq(tm.Len(r), tm.Int(32)))
    yield st, Sym("bytes", r)

"""A-HASH: hashlib.sha256 as an uninterpreted function of the bytes fed to it (incremental interface: the object
accumulates what update() receives; digest() is sha256 of the accumulated bytes).
A-HEX: ledgerblue.hexParser.IntelHexParser(path).getAreas() yields the data areas of the image at `path` - a list of
objects with a bytes attribute `data`, in the parser's (address) order; parsing may raise."""
from pyvc import terms as tm
from pyvc.terms import INT, BOOL, STR, BYTES
from pyvc.values import Sym, Obj, Opaque, Raise, Unsupported, Builtin, to_term, as_value, kind_of, is_sym, kind_sort
from pyvc import libmodels as LM
from pyvc import interp as I
from pyvc.verify import native, RecSpec

sha256_f = tm.FunDecl("sha256", [BYTES], BYTES)
Sha256Obj = LM.ext_class("hashlib.sha256obj")


def sha256_term(st, b):
    t = sha256_f(b)
    st.assume(tm.Eq(tm.Len(t), tm.Int(32)), axiom=True)
    return t


@LM.register_external("hashlib.sha256")
def _sha256(ip, st, args, kwargs):
    data = args[0] if args else b""
    if kind_of(data) != "bytes":
        raise Unsupported("sha256 of a non-bytes value")
    yield st, st.new_obj(Sha256Obj, {"acc": data})


def _update(ip, st, recv, args, kwargs):
    (b,) = args
    if kind_of(b) != "bytes":
        yield st, Raise(I.make_exc(st, "TypeError", "object supporting the buffer API required"))
        return
    f = st.fields(recv, True)
    acc = f["acc"]
    if not is_sym(acc) and not is_sym(b):
        f["acc"] = acc + b
    else:
        f["acc"] = as_value("bytes", tm.Concat(to_term(acc), to_term(b)))
    yield st, None


def _digest(ip, st, recv, args, kwargs):
    yield st, Sym("bytes", sha256_term(st, to_term(st.fields(recv)["acc"])))


def _hexdigest(ip, st, recv, args, kwargs):
    from pyvc import values as V
    yield st, Sym("str", V.hexs(sha256_term(st, to_term(st.fields(recv)["acc"]))))


_prev_obj_attr = LM.Lib.obj_attr


def obj_attr(self, ip, st, v, name):
    if isinstance(v, Obj) and v.cls is Sha256Obj:
        m = {"update": _update, "digest": _digest, "hexdigest": _hexdigest}.get(name)
        if m is not None:
            return iter([(st, LM.L_bound(m, v))])
        if name == "digest_size":
            return iter([(st, 32)])
        if name == "name":
            return iter([(st, "sha256")])
    return _prev_obj_attr(self, ip, st, v, name)


LM.Lib.obj_attr = obj_attr


@native
def sha256(ip, st, b):
    return as_value("bytes", sha256_term(st, to_term(b)))


# ------------------------------------------------------------------------------------------- Intel HEX images
AREAS = kind_sort(("list", "bytes"))
hex_areas = tm.FunDecl("intelhex.areas", [STR], AREAS)       # the data areas of the image stored at a path
Exception_ = I.builtin_exc("Exception")


@LM.register_external("ledgerblue.hexParser.IntelHexParser")
def _parser(ip, st, args, kwargs):
    (path,) = args
    if kind_of(path) != "str":
        raise Unsupported("IntelHexParser of a non-str path")
    s = st.fork()
    yield s, Raise(I.make_exc(s, "Exception", Sym("str", tm.Fresh("hexerror", STR))))
    yield st, Opaque("hexparser", dict(areas=Sym(("list", "bytes"), hex_areas(to_term(path)))))


@LM.opaque_method("hexparser", "getAreas")
def _get_areas(ip, st, recv, args, kwargs):
    seq = recv.attrs["areas"]
    yield st, Opaque("arealist", dict(elements=seq, wrap=lambda e: Opaque("hexarea", dict(data=e))))


def _flat_step(areas, k, prev):
    return tm.Concat(prev, tm.Nth(areas, k))


# concat(areas, k): the first k areas, concatenated in order
concat_areas = RecSpec("intelhex.concat", [AREAS], BYTES, base=lambda areas: tm.BytesLit(b""), step=_flat_step)


@native
def areas_of(ip, st, path):
    return Sym(("list", "bytes"), hex_areas(to_term(path)))

"""A-BTCLIB: the part of python-bitcoinlib (bitcoin.core) that comm/bitcoin.py's input-clearing helper uses, as
assumed contracts.  The library is ABSENT from this sandbox, so nothing here can be cross-checked against it.

Abstraction: a transaction input is an object with attributes prevout (an opaque outpoint, identified by an integer),
scriptSig (a script) and nSequence (an integer); a script is its list of operations as the library's CScript iterator
yields them, each operation coded as an integer (the literal 0 is the empty push OP_0).
  CMutableTxIn.from_txin(t)            a fresh mutable copy with the same three attributes; t itself is not changed
  CMutableTxIn(prevout, scriptSig, nSequence=0xffffffff)    the library's constructor and its default sequence number
  list(script)                         the operation list
  CScript(list)                        a script that iterates back to that list"""
from pyvc import terms as tm
from pyvc.terms import INT, BOOL, STR, BYTES
from pyvc.values import Sym, Obj, Opaque, Raise, Unsupported, to_term, as_value, kind_of, is_sym, kind_sort
from pyvc import libmodels as LM
from pyvc import lib as L
from pyvc import interp as I
from pyvc.verify import native, OPAQUE, INT_, LIST

MutableTxIn = LM.ext_class("bitcoin.core.CMutableTxIn")

# the shape of a transaction input handed to the helper (contract parameter)
TXIN = OPAQUE("txin", prevout=OPAQUE("outpoint", id=INT_), scriptSig=OPAQUE("cscript", ops=LIST(INT_)), nSequence=INT_)


def _attrs(st, t):
    if isinstance(t, Opaque) and t.tag == "txin":
        return t.attrs
    if isinstance(t, Obj) and t.cls is MutableTxIn:
        return st.fields(t)
    raise Unsupported("not a transaction input: %r" % (t,))


@LM.register_external("bitcoin.core.CMutableTxIn.from_txin")
def _from_txin(ip, st, args, kwargs):
    (t,) = args
    a = _attrs(st, t)
    yield st, st.new_obj(MutableTxIn, {"prevout": a["prevout"], "scriptSig": a["scriptSig"], "nSequence": a["nSequence"]})


def _new_txin(ip, st, cls, args, kwargs):
    names = ["prevout", "scriptSig", "nSequence"]
    a = dict(zip(names, args))
    a.update(kwargs)
    yield st, st.new_obj(MutableTxIn, {"prevout": a.get("prevout"), "scriptSig": a.get("scriptSig"),
                                       "nSequence": a.get("nSequence", 0xffffffff)})


LM.CLASS_HOOKS["bitcoin.core.CMutableTxIn"] = _new_txin


@LM.register_external("bitcoin.core.CScript")
def _cscript(ip, st, args, kwargs):
    (lst,) = args
    sq = L.to_seq_sym(st, lst)
    if sq.kind != ("list", "int"):
        raise Unsupported("CScript of %r" % (sq.kind,))
    yield st, Opaque("cscript", dict(ops=sq))


@native
def script_ops(ip, st, s):
    if isinstance(s, Opaque) and s.tag == "cscript":
        return s.attrs["ops"]
    raise Unsupported("script_ops(%r)" % (s,))


@native
def same_outpoint(ip, st, a, b):
    if isinstance(a, Opaque) and isinstance(b, Opaque) and a.tag == b.tag == "outpoint":
        return L.eq_total(ip, st, a.attrs["id"], b.attrs["id"])
    return False

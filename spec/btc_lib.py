"""A-BTCLIB: the part of python-bitcoinlib (bitcoin.core) that comm/bitcoin.py's input-clearing helper uses, as
assumed contracts.  The library is ABSENT from this sandbox, so nothing here can be cross-checked against it.

Abstraction: a transaction input is an integer handle; a script is its list of operations as the library's CScript
iterator yields them, each operation coded as an integer (the literal 0 is the empty push OP_0).
  CMutableTxIn.from_txin(t)   a fresh mutable copy whose scriptSig iterates to btc.ops(t); t itself is not changed
  list(script)                the operation list
  CScript(list)               a script that iterates back to that list"""
from pyvc import terms as tm
from pyvc.terms import INT, BOOL, STR, BYTES
from pyvc.values import Sym, Opaque, Raise, Unsupported, to_term, as_value, kind_of, is_sym, kind_sort
from pyvc import libmodels as LM
from pyvc import lib as L
from pyvc import interp as I
from pyvc.verify import native

OPS = kind_sort(("list", "int"))
btc_ops = tm.FunDecl("btc.scriptsig_ops", [INT], OPS)

MutableTxIn = LM.ext_class("bitcoin.core.CMutableTxIn")


@LM.register_external("bitcoin.core.CMutableTxIn.from_txin")
def _from_txin(ip, st, args, kwargs):
    (t,) = args
    if kind_of(t) != "int":
        raise Unsupported("from_txin of a value that is not a transaction-input handle")
    ops = btc_ops(to_term(t))
    yield st, st.new_obj(MutableTxIn, {"scriptSig": Opaque("cscript", dict(ops=Sym(("list", "int"), ops))), "copy_of": t})


@LM.register_external("bitcoin.core.CScript")
def _cscript(ip, st, args, kwargs):
    (lst,) = args
    sq = L.to_seq_sym(st, lst)
    if sq.kind != ("list", "int"):
        raise Unsupported("CScript of %r" % (sq.kind,))
    yield st, Opaque("cscript", dict(ops=sq))


@native
def input_ops(ip, st, t):
    """operations of the script-sig of the transaction input t"""
    return Sym(("list", "int"), btc_ops(to_term(t)))


@native
def script_ops(ip, st, s):
    if isinstance(s, Opaque) and s.tag == "cscript":
        return s.attrs["ops"]
    raise Unsupported("script_ops(%r)" % (s,))

"""Oracle tables read mechanically from the firmware sources on every run (never from the middleware):
status-word names/values (C enums), the THROW/FAIL sets per source file, state selectors."""
import os
import re

REPO = os.environ.get("VERIF_REPO", "/repo")
FW = os.path.join(REPO, "firmware", "src")


def _strip_comments(src):
    src = re.sub(r"/\*.*?\*/", "", src, flags=re.S)
    return re.sub(r"//[^\n]*", "", src)


def parse_enums(path):
    """name -> int for every enumerator of every `enum {...}` in a C header (implicit increments)."""
    src = _strip_comments(open(path).read())
    out = {}
    for body in re.findall(r"enum\s*\w*\s*\{(.*?)\}", src, flags=re.S):
        val = -1
        for item in body.split(","):
            item = item.strip()
            if not item:
                continue
            if "=" in item:
                name, expr = [x.strip() for x in item.split("=", 1)]
                try:
                    val = int(expr, 0)
                except ValueError:
                    if expr in out:
                        val = out[expr]
                    else:
                        continue
            else:
                name = item
                val += 1
            out[name] = val
    return out


def thrown_in(path):
    """set of identifiers that appear as THROW(X) / FAIL(X) in a C file"""
    src = _strip_comments(open(path).read())
    return set(re.findall(r"\b(?:THROW|FAIL)\(\s*([A-Za-z_][A-Za-z0-9_]*)\s*\)", src))


P = os.path.join(FW, "powhsm", "src")
AUTH = parse_enums(os.path.join(P, "auth.h"))
ERR = parse_enums(os.path.join(P, "err.h"))
BC_ERR = parse_enums(os.path.join(P, "bc_err.h"))
BC_STATE = parse_enums(os.path.join(P, "bc_state.h"))

# sign: firmware file handling each step (op byte of the APDU the status answers)
SIGN_STEP_FILES = {0x01: "auth_path.c", 0x02: "auth_tx.c", 0x04: "auth_receipt.c", 0x08: "auth_trie.c"}
SIGN_THROWS = {op: {n for n in thrown_in(os.path.join(P, f)) | thrown_in(os.path.join(P, "auth.c"))
                    if n in AUTH or n in ERR}
               for op, f in SIGN_STEP_FILES.items()}
ADVANCE_THROWS = {n for n in thrown_in(os.path.join(P, "bc_advance.c")) if n in BC_ERR}
ANCESTOR_THROWS = {n for n in thrown_in(os.path.join(P, "bc_ancestor.c")) if n in BC_ERR}


def value(name):
    for t in (AUTH, ERR, BC_ERR):
        if name in t:
            return t[name]
    raise KeyError(name)


if __name__ == "__main__":
    import pprint
    pprint.pprint(SIGN_THROWS)
    pprint.pprint(sorted(ADVANCE_THROWS))
    pprint.pprint(sorted(ANCESTOR_THROWS))
    pprint.pprint(BC_STATE)

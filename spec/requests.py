"""What the validators of comm/protocol.py establish (structural requirements of docs/protocol.md), as spec
predicates over JSON values.  Used as postconditions of the validators and preconditions of the handlers."""
T_NONE, T_BOOL, T_INT, T_FLOAT, T_STR, T_LIST, T_DICT = range(7)


def hexfield(m, name):
    return jhas(m, name) and jtag(m[name]) == T_STR and is_hex(jstr(m[name]))


def nonempty_hexfield(m, name):
    return hexfield(m, name) and len(unhex(jstr(m[name]))) > 0


def msg_hash(m):
    return jdlen(m) == 1 and hexfield(m, "hash") and len(unhex(jstr(m["hash"]))) == 32


def msg_tx_common(m):
    return (nonempty_hexfield(m, "tx") and jhas(m, "input") and jtag(m["input"]) == T_INT
            and jint(m["input"]) >= 0 and jint(m["input"]) <= 4294967295
            and jhas(m, "sighashComputationMode") and jtag(m["sighashComputationMode"]) == T_STR)


def msg_legacy(m):
    return jdlen(m) == 3 and msg_tx_common(m) and jstr(m["sighashComputationMode"]) == "legacy"


def msg_segwit(m):
    return (jdlen(m) == 5 and msg_tx_common(m) and jstr(m["sighashComputationMode"]) == "segwit"
            and nonempty_hexfield(m, "witnessScript") and jhas(m, "outpointValue") and jtag(m["outpointValue"]) == T_INT
            and jint(m["outpointValue"]) > 0 and jint(m["outpointValue"]) <= 18446744073709551615)


def valid_auth(a):
    return (jtag(a) == T_DICT and nonempty_hexfield(a, "receipt") and jhas(a, "receipt_merkle_proof")
            and jtag(a["receipt_merkle_proof"]) == T_LIST and jlen(a["receipt_merkle_proof"]) > 0
            and forall_int(0, jlen(a["receipt_merkle_proof"]),
                           lambda i: jtag(jitem(a["receipt_merkle_proof"], i)) == T_STR
                           and is_hex(jstr(jitem(a["receipt_merkle_proof"], i)))
                           and len(unhex(jstr(jitem(a["receipt_merkle_proof"], i)))) > 0))


def valid_message_any(m):
    return jtag(m) == T_DICT and (msg_hash(m) or msg_legacy(m) or msg_segwit(m))


def sign_validated(request):
    return (jtag(request) == T_DICT
            and (not jhas(request, "auth") or valid_auth(request["auth"]))
            and jhas(request, "message") and valid_message_any(request["message"]))


def brothers_ok(request):
    """brothers: one list per block, each a list of non-empty hex strings"""
    b = request["brothers"]
    return (jhas(request, "brothers") and jtag(b) == T_LIST and jlen(b) == jlen(request["blocks"])
            and forall_int(0, jlen(b), lambda i: jtag(jitem(b, i)) == T_LIST
                           and forall_int(0, jlen(jitem(b, i)), lambda j: jtag(jitem(jitem(b, i), j)) == T_STR
                                          and is_hex(jstr(jitem(jitem(b, i), j)))
                                          and len(unhex(jstr(jitem(jitem(b, i), j)))) > 0)))


def brothers_value_ok(b, nblocks):
    return (jtag(b) == T_LIST and jlen(b) == nblocks
            and forall_int(0, jlen(b), lambda i: jtag(jitem(b, i)) == T_LIST
                           and forall_int(0, jlen(jitem(b, i)), lambda j: jtag(jitem(jitem(b, i), j)) == T_STR
                                          and is_hex(jstr(jitem(jitem(b, i), j)))
                                          and len(unhex(jstr(jitem(jitem(b, i), j)))) > 0)))

"""Per-property configuration of the checker: level, assumptions, trusted base, extra lemmas / stand-ins."""

A_PYSEM = "A-PYSEM: pyvc's encoding of the Python subset (DESIGN 3.3); Python ints are mathematical (exact)"
A_SMT = "A-SMT: soundness of z3 / cvc5"
A_DEV_WF = "A-DEV-WF: device answers have the shape the firmware gives them (spec/device.py:devwf)"
A_FW = "A-FW: the firmware appends chunk payloads per (command, op) in arrival order"
A_LIB = "A-LIB: library contract table (pyvc/libmodels.py, spec/*.py): struct, json, logging no-op, hid, ledgerblue"

A_DOC = "A-DOC: result-code sets parsed from docs/protocol.md; cause names transcribed by hand (spec/protocol_doc.py)"
A_FWTABLE = "A-FWTABLE: which status the firmware can produce at which step (THROW sets per auth_*.c file; hand attribution for advance/update)"
A_BTC = "A-BTC: python-bitcoinlib (absent from the sandbox) used through assumed contracts only"
A_SEQ = "A-SEQ: requests are dispatched one at a time (socketserver.TCPServer is not a threading mix-in)"
COMMON = [A_PYSEM, A_SMT, A_DEV_WF, A_LIB]
TB = ["spec/device.py (exchange contract, A-DEV-WF)"]

def _c10a_replay(tier, seed):
    import subprocess, os, json
    here = os.path.dirname(os.path.dirname(os.path.abspath(__file__)))
    p = subprocess.run(["/venv/bin/python", os.path.join(here, "replay", "native.py")], capture_output=True, text=True, timeout=120)
    return dict(name="native-replay-C10-a", bounded=False, status="ok", output=(p.stdout + p.stderr)[-600:],
                reproduced=p.stdout.strip().startswith("(True"))


def _c14_lemmas(tier, seed):
    """Consequences of the clearing contract, over lists as (length, index -> operation): applying it again changes
    nothing, and the result does not depend on the non-final operations.  Proved by z3 (negated, skolemised)."""
    import z3
    I = z3.IntSort()
    l1, l2, r1, r2, r3 = [z3.Function(n, I, I) for n in ("l1", "l2", "r1", "r2", "r3")]
    n, k, q = z3.Ints("n k q")

    def clear(src, dst):
        return z3.And(z3.ForAll([q], z3.Implies(z3.And(0 <= q, q < n - 1), dst(q) == 0)), dst(n - 1) == src(n - 1))
    out = []
    for name, hyps, goal in [
        ("idempotent", [clear(l1, r1), clear(r1, r3)], r3(k) == r1(k)),
        ("independent-of-non-final-operations", [clear(l1, r1), clear(l2, r2), l1(n - 1) == l2(n - 1)], r1(k) == r2(k)),
    ]:
        s = z3.Solver()
        s.set("timeout", 20000)
        s.add(n > 0, 0 <= k, k < n, *hyps)
        s.add(z3.Not(goal))
        res = str(s.check())
        out.append((name, res))
    ok = all(r == "unsat" for _, r in out)
    return dict(name="lemma-clearing-is-idempotent-and-canonical", bounded=False, status="ok" if ok else "checker-error",
                error=None if ok else "lemma not proved: %r" % (out,), results=out,
                note="over the abstract operation lists of spec/btc_lib.py; carries over to serialized transactions only under A-BTCLIB")


def _app_hash_bounded(tier, seed):
    import subprocess, os, json
    here = os.path.dirname(os.path.dirname(os.path.abspath(__file__)))
    cmd = ["/venv/bin/python", os.path.join(here, "bounded", "app_hash.py")] + (["--full"] if tier == "thorough" else [])
    p = subprocess.run(cmd, capture_output=True, text=True, timeout=1800)
    try:
        d = json.loads(p.stdout)
    except ValueError:
        return dict(name="bounded-differential-app-hash", bounded=True, status="checker-error", error=(p.stdout + p.stderr)[-600:])
    out = dict(name="bounded-differential-app-hash", bounded=True, bound=d["bound"], stats=d["stats"], status="violation" if d["failures"] else "ok",
               note="real code, real ledgerblue Intel-HEX parser, independent writer and SHA-256; NOT counted as proved")
    if d.get("skipped"):
        out["skipped"] = d["skipped"]
    if d["failures"]:
        out.update(witness=d["failures"][0], what=d["failures"][0]["what"], replay_cmd="/venv/bin/python bounded/app_hash.py")
    return out


def _sgx_envelope_bounded(tier, seed):
    import subprocess, os, json
    here = os.path.dirname(os.path.dirname(os.path.abspath(__file__)))
    cmd = ["/venv/bin/python", os.path.join(here, "bounded", "sgx_envelope.py")] + (["--full"] if tier == "thorough" else [])
    p = subprocess.run(cmd, capture_output=True, text=True, timeout=1800)
    try:
        d = json.loads(p.stdout)
    except ValueError:
        return dict(name="bounded-sgx-envelope", bounded=True, status="checker-error", error=(p.stdout + p.stderr)[-600:])
    out = dict(name="bounded-sgx-envelope", bounded=True, bound=d["bound"], stats=d["stats"], status="violation" if d["failures"] else "ok",
               note="real sgx/envelope.py on envelopes built by construction at the Intel layout; NOT counted as proved")
    if d["failures"]:
        out.update(witness=d["failures"][0], what=d["failures"][0]["what"], replay_cmd="/venv/bin/python bounded/sgx_envelope.py --replay <this file>")
    return out


def _certs_v2_bounded(prop):
    def run(tier, seed):
        import subprocess, os, json
        here = os.path.dirname(os.path.dirname(os.path.abspath(__file__)))
        p = subprocess.run(["/venv/bin/python", os.path.join(here, "bounded", "certs_v2_roundtrip.py")], capture_output=True, text=True, timeout=600)
        try:
            d = json.loads(p.stdout)
        except ValueError:
            return dict(name="bounded-v2-element-roundtrip", bounded=True, status="checker-error", error=(p.stdout + p.stderr)[-600:])
        mine = [f for f in d["failures"] if f["prop"] == prop]
        out = dict(name="bounded-v2-element-roundtrip", bounded=True, bound=d["bound"], stats=d["stats"], status="violation" if mine else "ok",
                   note="real code, real ecdsa P-256 signatures; NOT counted as proved")
        if mine:
            out.update(witness=mine[0], what=mine[0]["what"], replay_cmd="/venv/bin/python bounded/certs_v2_roundtrip.py")
        return out
    run.__name__ = "certs_v2_bounded_" + prop
    return run


def _certs_bounded(prop):
    def run(tier, seed):
        import subprocess, os, json
        here = os.path.dirname(os.path.dirname(os.path.abspath(__file__)))
        cmd = ["/venv/bin/python", os.path.join(here, "bounded", "certs_v1.py")] + (["--full"] if tier == "thorough" else [])
        p = subprocess.run(cmd, capture_output=True, text=True, timeout=900)
        try:
            d = json.loads(p.stdout)
        except ValueError:
            return dict(name="bounded-differential-certs-v1", bounded=True, status="checker-error", error=(p.stdout + p.stderr)[-600:])
        mine = [f for f in d["failures"] if f["prop"] == prop]
        out = dict(name="bounded-differential-certs-v1", bounded=True, bound=d["bound"], stats=d["stats"],
                   status="violation" if mine else "ok",
                   note="real code, real secp256k1 signatures, oracle by construction; NOT counted as proved")
        if mine:
            out["witness"] = mine[0]
            out["what"] = mine[0]["what"]
            out["replay_cmd"] = "/venv/bin/python bounded/certs_v1.py --replay <this file>"
        return out
    run.__name__ = "certs_bounded_" + prop
    return run


PROPS = {
    "C01": dict(level="proof", assumptions=COMMON + [A_FW, A_BTC], trusted_base=TB,
                explanation="contracts on the real signing path, discharged per function"),
    "C04": dict(level="proof", assumptions=COMMON + [A_DOC, A_FWTABLE], trusted_base=TB + ["spec/protocol_doc.py", "spec/firmware.py"],
                explanation="status word is a universally quantified integer at every exchange call site"),
    "C11": dict(level="proof", assumptions=COMMON + [A_SEQ], trusted_base=TB,
                explanation="link faults are outcomes of the exchange contract at every call site"),
    "C02": dict(level="proof", assumptions=COMMON + [A_DOC, A_BTC, "BIP32Path.__init__ key-id grammar (split on /, element count, m/ prefix): assumed contract (uninterpreted predicate); its element parser BIP32Element.__init__ IS verified (decimal digits, at most one trailing quote, value < 2^31) with str.isdecimal / int(str) uninterpreted: isdecimal(s) => s non-empty, an integer literal in base 10, value >= 0"],
                trusted_base=TB + ["spec/requests.py (structural requirements transcribed from docs/protocol.md)"],
                explanation="every JSON value is a universally quantified term of an uninterpreted JSON sort"),
    "C03": dict(level="proof", assumptions=COMMON + [A_SEQ, A_BTC, "A-MEM: a request line is shorter than 2^32 bytes",
                                                       "scope: requests handled while no link repair is pending, or whose repair succeeds (DESIGN 5.C03)",
                                                       "json.loads raises only JSONDecodeError / RecursionError / ValueError"],
                trusted_base=TB + ["spec/server_io.py"],
                explanation="exceptions are path outcomes; every path out of _RequestHandler.handle is an obligation"),
    "C09": dict(level="proof", assumptions=COMMON + ["A-PLATFORM: Platform.set was called with a valid platform"],
                trusted_base=TB, explanation="the whole product of device answers is symbolic; dominance of unlock by its preconditions"),
    "C05": dict(level="proof", assumptions=COMMON + [A_FW, "A-RLP / A-KECCAK: rlp.decode/encode, keccak as uninterpreted functions (spec/rlp_ext.py)",
                                                       "coinbase_tx_get_hash: assumed contract (SHA-256 midstate code out of reach)",
                                                       "sorted(xs, key=f): a permutation of xs; exceptions of f are sorted's exceptions (spec/sorting.py); reverse= is unsupported",
                                                       "scope: announced count, per-header metadata/chunk framing, result codes; the global order of all headers as one formula is not stated (DESIGN 5.C05)",
                                                       "NOT covered: the clause 'brothers sorted ascending by block hash' - no postcondition speaks about the order in which brothers reach the "
                                                       "device; the ordering predicate asserted by the sorted() model is used by no clause; get_block_hash is verified on its own"],
                trusted_base=TB + ["spec/rlp_ext.py", "spec/sorting.py"],
                explanation="block operations verified with the real status tables inlined; chunk framing by the loop invariant of _send_data_in_chunks"),
    "C10": dict(level="other", assumptions=COMMON + ["A-FS: open/write may fail at any call; 'wb' truncates (spec/fs.py)",
                                                       "crash = failure of the next effectful call (process crashes between statements are covered by the same outcomes of open/write only)"],
                trusted_base=TB + ["spec/fs.py"],
                explanation="clauses 1-4 of the property are proved; clause 5 (a PIN that opens the device is always recoverable) fails on the unchanged tree: known finding C10-a, reproduced natively on every run",
                extras=[_c10a_replay]),
    "C17": dict(level="proof", assumptions=COMMON + ["A-KECCAK", "str.lower / int(str) / ascii encoding as uninterpreted functions",
                                                       "scope: message text and EIP-191 wrapping, digest wiring, constructor refusals, the device exchange; "
                                                       "save/load: to_dict of the authorization and of the signer version write exactly hash, iteration and the signatures in order, and "
                                                       "SignerVersion.__init__ reads them back; json.dumps / json.loads, the file and SignerAuthorization.from_jsonfile in between are NOT "
                                                       "verified; sign-then-verify (secp256k1) is NOT covered (DESIGN 5.C17)"],
                trusted_base=TB, explanation="string obligations are syntactic equalities of SMT string terms; the signature loop has an inductive invariant"),
    "C18": dict(level="proof", assumptions=COMMON + ["stdin / getpass answers are arbitrary strings; os.urandom(n) returns n arbitrary bytes",
                                                       "scope: onboard (up to and including the onboarding call), unlock, changepin, the public-key export and the device-side onboarding/PIN "
                                                       "methods; export: each key is requested for the documented path of its name (table in the contract, independent of "
                                                       "admin/pubkeys.py) and the JSON map written holds, per documented path, the uncompressed encoding of the device's answer "
                                                       "(json.dumps, the text-file writes and the ecdsa re-encoding are assumed); 'the operation is carried out when the preconditions hold' only as: "
                                                       "normal return of do_unlock => exactly one unlock, normal return of do_changepin => the device acknowledged a PIN change"],
                trusted_base=TB, explanation="dominance of every destructive device call by its preconditions, as assertions at the call sites over all paths"),
    "C16": dict(level="proof", assumptions=COMMON + ["A-CRYPTO: element validity is an uninterpreted predicate",
                                                       "scope: version-1 certificates: _parse terminates (unwinding assertion over the finite universe of the four "
                                                       "element names) and establishes a cycle-free path to the root for every target, which bounds both loops of "
                                                       "validate_and_get_values.  Save/load: for the sgx_attestation_key and sgx_quote elements of version 2, to_dict writes "
                                                       "and _init_with_map reads back every field the verdict depends on (contracts over the same fields; the round trip "
                                                       "is their composition); the same two contracts for version-1 elements; HSMCertificate.to_dict / save_to_jsonfile / "
                                                       "from_jsonfile (file I/O, version dispatch), the x509 element (base64) and the version-2 chain walk over unboundedly many "
                                                       "element names are NOT under contract (certificate-level v1 round trip and v2 graphs: bounded harnesses only)",
                                                       "A-CSTRUCT: CStruct layouts read off the real classes by executing them (spec/cstruct.py)",
                                                       "A-CRYPTO(P-256): ecdsa VerifyingKey.from_string / to_string as uninterpreted functions with the parse-back axiom"],
                trusted_base=["spec/certs.py"],
                explanation="v1 element names are restricted to four constants, so the element map is a finite map and paths are finite formulas; "
                            "while-loops are unrolled with an unwinding assertion (complete when it is discharged)",
                extras=[_certs_bounded("C16"), _certs_v2_bounded("C16")]),
    "C06": dict(level="proof", assumptions=COMMON + ["A-CRYPTO: the secp256k1 and hmac library calls (PublicKey parse / serialize / tweak_add / ecdsa_deserialize / ecdsa_verify, hmac.new) "
                                                       "as uninterpreted functions; the property's link condition is written over them (spec/certs.py link_valid) and is_valid is VERIFIED against it",
                                                       "the root of trust is an HSMCertificateRoot whose key was parsed successfully (its constructor is not under contract)",
                                                       "'the reported value is exactly the target's signed message' is read as: the part of the message the element kind designates "
                                                       "(whole message for ui and signer; last 65 bytes for device, all but the first byte for attestation), in lower-case hex"],
                trusted_base=["spec/certs.py"],
                explanation="verdict of every target compared with a recursive specification over the finite element map",
                extras=[_certs_bounded("C06")]),
    "C14": dict(level="other", assumptions=COMMON + ["A-BTCLIB: python-bitcoinlib (CMutableTransaction.deserialize / serialize, CScript iteration and construction, "
                                                      "CMutableTxIn.from_txin) as assumed contracts over abstract operation lists; the library is ABSENT from the sandbox, "
                                                      "so none of this could be cross-checked, and comm/bitcoin.py cannot even be imported here",
                                                      "scope: the per-input clearing helper, the consequences idempotent / canonical as lemmas over the abstraction, and the "
                                                      "handler's -102-without-exchange; _unsign_tx's map over the inputs, byte-for-byte preservation of the other fields and "
                                                      "the serialized form are library behaviour and are NOT verified"],
                trusted_base=TB + ["spec/btc_lib.py"],
                explanation="the repository's own glue around python-bitcoinlib: zeros(n-1)+[last], IndexError on an empty script, -102 before any exchange",
                extras=[_c14_lemmas]),
    "C19": dict(level="other", assumptions=COMMON + ["A-HEX: ledgerblue IntelHexParser(path).getAreas() = the image's data areas in address order, whatever the record sizes (assumed; "
                                                      "this IS the first half of the property's first sentence)",
                                                      "A-HASH: hashlib.sha256 as an uninterpreted function with the incremental-update law",
                                                      "A-CLI: argparse / sys.exit / str.split / str.strip / ecdsa (fresh key per generate(), sign_digest output verifies under the key) as assumed contracts",
                                                      "scope: compute_app_hash and signonetime.main; signapp.py ('hash' / 'message' operations embed compute_app_hash(...).hex()) is NOT under contract; "
                                                      "'repeated runs' (freshness across runs) is a property of ecdsa.SigningKey.generate and of the OS random source: assumed"],
                trusted_base=["spec/hash_ext.py", "spec/cli_ext.py", "spec/fs.py"],
                explanation="hash = SHA-256 of the concatenation of the parser's areas in order (loop invariant over a recursive spec function); one key per run, "
                            "public-key file and one signature file per image with fully specified contents, every signature over the image's hash and verifying under the key; "
                            "no term written to a file or to stdout mentions the secret (syntactic taint)",
                extras=[_app_hash_bounded]),
    "C07": dict(level="other", assumptions=COMMON + ["A-CRYPTO(P-256): ecdsa VerifyingKey.from_string / verify_digest as uninterpreted functions (verify_digest returns True or raises)",
                                                      "A-X509: cryptography (load_pem_x509_certificate, validity attributes, public_key().verify), datetime.now, base64 as assumed contracts",
                                                      "A-HASH: sha256 uninterpreted; A-CSTRUCT: struct views by executing the real classes; the report-data offsets of the SPECIFICATION side are the "
                                                      "Intel SGX constants (320 in the 384-byte report body, 48 + 320 in the 432-byte quote), not the repository's struct definitions",
                                                      "scope: the three element predicates (is_valid) and the quote's reported value. The chain walk (validate_and_get_values / _parse) is the code shared "
                                                      "with version 1; it is verified for element maps over at most four names (C06 / C16) and NOT for the unbounded names of version 2 "
                                                      "(a bounded graph harness checks termination only, under C16); HSMCertificateV2ElementX509.get_pubkey (P-256 check) is not under contract"],
                trusted_base=["spec/crypto_ext.py", "spec/x509_ext.py", "spec/cstruct.py", "spec/hash_ext.py"],
                explanation="each element predicate equals the conjunction the property states for that element kind, over uninterpreted primitives; any library failure yields False",
                extras=[_certs_v2_bounded("C07")]),
    "C08": dict(level="other", assumptions=COMMON + ["A-CRYPTO, A-HASH, A-CSTRUCT, A-SORT as in C06 / C07",
                                                      "A-RE: re.compile / match for anchored fixed-length byte patterns, decided byte by byte (spec/regex_ext.py)",
                                                      "assumed contracts (file / JSON handling not verified): load_pubkeys, compute_pubkeys_output, HSMCertificate.from_jsonfile "
                                                      "(returns a version-1 certificate as _parse leaves it, or raises), admin.misc.head",
                                                      "scope: both verify commands, the powHSM message layout / exact-length check and the public-keys hash; 'finishes without "
                                                      "error only when' is proved as: every normal return satisfies the conjunction (errors are any exception); the converse "
                                                      "('every other situation ends in an error') is the same statement; that genuine inputs DO pass is not proved",
                                                      "SGX command: 'the certificate chain is valid' rests on an ASSUMED contract of the version-2 validate_and_get_values (the "
                                                      "version-2 walk is not verified, see C07): the command is proved to insist on that verdict, on the root validating itself, "
                                                      "and on everything else; get_root_of_trust (file / network) is an assumed contract"],
                trusted_base=["spec/certs.py", "spec/pubkeys_ext.py", "spec/regex_ext.py", "spec/cstruct.py", "spec/hash_ext.py"],
                explanation="normal return of do_verify_attestation implies: both chains valid for the chosen root (C06's specification; SGX: assumed verdict + self-validating root), documented headers, "
                            "exact powHSM length, keys hash = SHA-256 of the operator's keys in path order, UI key = operator's key; the lines handed to head() hold the slices at the documented offsets"),
    "C15": dict(level="other", assumptions=COMMON + ["scope: ONLY the gathering side of the Ledger path, function by function - HSM2Dongle.get_ui_attestation (pages reassembled in order, "
                                                      "answers verbatim) and admin/ledger_attestation.do_attestation (the certificate handed to save_to_jsonfile carries the device's "
                                                      "answers as elements ui / signer certified by attestation, with exactly those two targets).  The end-to-end statement of C15 - files "
                                                      "written by one command are accepted by another with the device's values, and any alteration is refused - is a whole-history property "
                                                      "and is NOT decided: its verification side is what C06 / C07 / C08 / C16 state about the individual functions",
                                                      "assumed contracts: get_powhsm_attestation (paging with legacy framing not verified), get_ud_value_for_attestation, "
                                                      "HSMCertificate.from_jsonfile, save_to_jsonfile; onboarding's endorsement set-up, the SGX envelope path and dongle_admin are not under contract "
                                                      "(the envelope parser sgx/envelope.py has a BOUNDED harness only: bounded/sgx_envelope.py)"],
                trusted_base=TB + ["spec/certs.py"],
                explanation="wiring of device answers into the certificate, as assertions at the save call site; paging loop unrolled with an unwinding assertion",
                extras=[_sgx_envelope_bounded]),
    "C13": dict(level="proof", assumptions=COMMON + [A_FW], trusted_base=TB + ["spec/firmware.py"],
                explanation="reply fields are equated with the answers recorded in the ghost log, selectors from the firmware headers"),
}

"""Per-property configuration of the checker: level, assumptions, trusted base, extra lemmas / stand-ins."""

A_PYSEM = "A-PYSEM: pyvc's encoding of the Python subset (DESIGN 3.3); Python ints are mathematical (exact)"
A_SMT = "A-SMT: soundness of z3 / cvc5"
A_DEV_WF = "A-DEV-WF: device answers have the shape the firmware gives them (spec/device.py:devwf)"
A_FW = "A-FW: the firmware appends chunk payloads per (command, op) in arrival order"
A_LIB = "A-LIB: library contract table (pyvc/libmodels.py, spec/*.py): struct, json, logging no-op, hid, ledgerblue"

PROPS = {
    "C01": dict(level="proof", assumptions=[A_PYSEM, A_SMT, A_DEV_WF, A_FW, A_LIB],
                trusted_base=["spec/device.py (exchange contract, A-DEV-WF)"],
                explanation="contracts on the real signing path, discharged per function"),
}

"""A-CLI: what the one-time signing tool (signonetime.py) touches outside the repository, as assumed contracts.

  argparse.ArgumentParser(...).parse_args()   exits (SystemExit 2) or yields the options; the option values are the
                                              run's inputs (ghost `opt_app_path`, `opt_publickey_path`)
  str.split(sep) / str.strip()                uninterpreted functions (split yields at least one piece)
  sys.exit(n)                                 raises SystemExit(n)
  ecdsa.SigningKey.generate(curve)            a fresh key; ghost `keys_generated` counts the calls; the key's secret never
                                              becomes bytes except through to_string / to_pem / to_der (secret_bytes)
  sk.get_verifying_key().to_string(enc)       the public key bytes pub_bytes(sk, enc)
  sk.sign_digest(d, sigencode=...)            some bytes s with ecdsa.verifies(sk, d, s); ghost log of (digest, s)
  open(path, "wb") / file.write(data)         besides the PIN-file model of spec/fs.py: ghost log of (path, data) writes"""
from pyvc import terms as tm
from pyvc.terms import INT, BOOL, STR, BYTES
from pyvc.values import Sym, Obj, Opaque, Raise, Unsupported, to_term, as_value, kind_of, is_sym, kind_sort
from pyvc import libmodels as LM
from pyvc import interp as I
from pyvc import verify as VF
from pyvc.verify import native, RAW, INT_, STR_, BOOL_

ARR_STR = tm.ArrayOf(INT, STR)
ARR_BYTES = tm.ArrayOf(INT, BYTES)
SK = "EcdsaSK"
tm.USORTS.add(SK)

VF.GHOST_SCHEMA.update({
    "opt_app_path": STR_, "opt_publickey_path": STR_, "opt_verbose": BOOL_,
    "keys_generated": INT_, "the_key": RAW(SK),
    "nsigs": INT_, "sig_digest": RAW(ARR_BYTES), "sig_bytes": RAW(ARR_BYTES),
    "nwrites": INT_, "wpath": RAW(ARR_STR), "wdata": RAW(ARR_BYTES),
})
VF.GHOST_LOCAL.update({"opt_app_path", "opt_publickey_path", "opt_verbose", "keys_generated", "the_key", "nsigs", "sig_digest",
                       "sig_bytes", "nwrites", "wpath", "wdata"})

str_split = tm.FunDecl("str.split", [STR, STR], kind_sort(("list", "str")))
str_strip = tm.FunDecl("str.strip", [STR], STR)
pub_bytes = tm.FunDecl("ecdsa.pub_bytes", [SK, STR], BYTES)
secret_bytes = tm.FunDecl("ecdsa.secret_bytes", [SK, STR], BYTES)
verifies = tm.FunDecl("ecdsa.verifies", [SK, BYTES, BYTES], BOOL)      # s is a signature of digest d under sk's public key


@LM.register_external("argparse.ArgumentParser")
def _argparser(ip, st, args, kwargs):
    if set(kwargs) - {"description", "prog", "epilog", "usage"}:      # texts shown in the help only
        raise Unsupported("ArgumentParser(%s) is not modelled" % ", ".join(sorted(kwargs)))
    yield st, Opaque("argparser")


@LM.opaque_method("argparser", "add_argument")
def _add_argument(ip, st, recv, args, kwargs):
    yield st, None


@LM.opaque_method("argparser", "parse_args")
def _parse_args(ip, st, recv, args, kwargs):
    s = st.fork()
    yield s, Raise(I.make_exc(s, "SystemExit", 2))
    g = st.ghost
    yield st, Opaque("options", dict(app_path=g["opt_app_path"], publickey_path=g["opt_publickey_path"], verbose=g["opt_verbose"]))


@LM.register_external("sys.exit")
def _exit(ip, st, args, kwargs):
    yield st, Raise(I.make_exc(st, "SystemExit", args[0] if args else None))


@LM.register_external("logging.disable")
def _logging_disable(ip, st, args, kwargs):
    yield st, None


LM.EXTERNAL_VALUES["logging.CRITICAL"] = 50


@LM.register_external("str.split")
def _split(ip, st, args, kwargs):
    s, sep = args[0], (args[1] if len(args) > 1 else None)
    if sep is None or is_sym(sep):
        raise Unsupported("split without a constant separator")
    r = Sym(("list", "str"), str_split(to_term(s), tm.Str(sep)))
    st.assume(tm.Le(tm.Int(1), tm.Len(r.term)), axiom=True)
    yield st, r


@LM.register_external("str.strip")
def _strip(ip, st, args, kwargs):
    if len(args) > 1:
        raise Unsupported("strip(chars)")
    yield st, Sym("str", str_strip(to_term(args[0])))


# ------------------------------------------------------------------------------------------------------- ecdsa
LM.EXTERNAL_VALUES["ecdsa.util.sigencode_der"] = Opaque("sigencode_der")


@LM.register_external("ecdsa.SigningKey.generate")
def _generate(ip, st, args, kwargs):
    if set(kwargs) - {"curve"} or args:
        raise Unsupported("SigningKey.generate with arguments other than curve= is not modelled")
    # (curve= is accepted whatever it is: the key is an abstract value of sort SK; C19 does not fix the curve)
    k = tm.Fresh("sk", SK)
    g = st.ghost
    g["keys_generated"] = as_value("int", tm.Add(to_term(g["keys_generated"]), tm.Int(1)))
    g["the_key"] = Sym(("raw", SK), k)
    yield st, Opaque("ecdsa_sk", dict(key=k))


@LM.opaque_method("ecdsa_sk", "get_verifying_key")
def _get_vk(ip, st, recv, args, kwargs):
    yield st, Opaque("ecdsa_vk", dict(key=recv.attrs["key"]))


@LM.opaque_method("ecdsa_vk", "to_string")
def _vk_to_string(ip, st, recv, args, kwargs):
    enc = args[0] if args else kwargs.get("encoding", "raw")
    if is_sym(enc):
        raise Unsupported("symbolic encoding")
    yield st, Sym("bytes", pub_bytes(recv.attrs["key"], tm.Str(enc)))


def _secret(fmt):
    def impl(ip, st, recv, args, kwargs):
        yield st, Sym("bytes", secret_bytes(recv.attrs["key"], tm.Str(fmt)))
    return impl


for _m in ("to_string", "to_pem", "to_der"):
    LM.OPAQUE_METHODS[("ecdsa_sk", _m)] = _secret(_m)


@LM.opaque_method("ecdsa_sk", "sign_digest")
def _sign_digest(ip, st, recv, args, kwargs):
    d = args[0]
    if kind_of(d) != "bytes":
        raise Unsupported("sign_digest of a non-bytes digest")
    s = tm.Fresh("signature", BYTES)
    st.assume(verifies(recv.attrs["key"], to_term(d), s))
    g = st.ghost
    n = to_term(g["nsigs"])
    g["sig_digest"] = Sym(("raw", ARR_BYTES), tm.Store(g["sig_digest"].term, n, to_term(d)))
    g["sig_bytes"] = Sym(("raw", ARR_BYTES), tm.Store(g["sig_bytes"].term, n, s))
    g["nsigs"] = as_value("int", tm.Add(n, tm.Int(1)))
    yield st, Sym("bytes", s)


# ------------------------------------------------------------------------------------------------------- files
def record_write(st, path, data):
    g = st.ghost
    n = to_term(g["nwrites"])
    g["wpath"] = Sym(("raw", ARR_STR), tm.Store(g["wpath"].term, n, to_term(path)))
    g["wdata"] = Sym(("raw", ARR_BYTES), tm.Store(g["wdata"].term, n, to_term(data)))
    g["nwrites"] = as_value("int", tm.Add(n, tm.Int(1)))


LM.EXTERNALS["file.record_write"] = record_write


# ------------------------------------------------------------------------------------------------------- console
VF.GHOST_SCHEMA["stdout_log"] = STR_
VF.GHOST_LOCAL.add("stdout_log")
VF.GHOST_LOGS.add("stdout_log")


def _console_record(ip, st, text):
    if "stdout_log" in st.ghost and kind_of(text) == "str":
        st.ghost["stdout_log"] = as_value("str", tm.Concat(to_term(st.ghost["stdout_log"]), to_term(text)))


LM.EXTERNALS["console.record"] = _console_record


@native
def mentions_secret(ip, st, v):
    """syntactic taint: does the term of v contain the secret-key bytes (ecdsa.secret_bytes) anywhere?  The model gives
    the secret no other way into a value, so a term without it does not depend on the secret."""
    t = to_term(v)
    for x in tm.subterms(t):
        if x.op == "uf" and x.args[0] == "ecdsa.secret_bytes":
            return True
    return False


@native
def sig_verifies(ip, st, key, d, s):
    return as_value("bool", verifies(to_term(key), to_term(d), to_term(s)))


@native
def public_key_bytes(ip, st, key, enc):
    return Sym("bytes", pub_bytes(to_term(key), tm.Str(enc)))


@native
def stripped(ip, st, s):
    return Sym("str", str_strip(to_term(s)))


@native
def pieces(ip, st, s, sep):
    r = Sym(("list", "str"), str_split(to_term(s), tm.Str(sep)))
    st.assume(tm.Le(tm.Int(1), tm.Len(r.term)), axiom=True)
    return r


@native
def utf8_of(ip, st, s):
    return Sym("bytes", LM.utf8(to_term(s)))

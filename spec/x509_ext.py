"""A-X509: the `cryptography` package as used by HSMCertificateV2ElementX509 (assumed contracts, uninterpreted):
  x509.load_pem_x509_certificate(pem)   raises, or yields the certificate x509.cert(pem)
  cert.not_valid_before_utc / not_valid_after_utc     instants, modelled as integers (seconds)
  datetime.now(UTC)                     the current instant, an arbitrary integer recorded in ghost `clock_now`
  issuer.public_key().verify(subject.signature, subject.tbs_certificate_bytes, ec.ECDSA(subject.signature_hash_algorithm))
                                        returns None when x509.signed_by(issuer, subject) holds, raises InvalidSignature otherwise
  base64.b64encode(b) / b64decode(s)    uninterpreted, with b64decode(b64encode(b)) == b; the text of b64encode is ASCII"""
from pyvc import terms as tm
from pyvc.terms import INT, BOOL, STR, BYTES
from pyvc.values import Sym, Obj, Opaque, Raise, Unsupported, to_term, as_value, kind_of, is_sym
from pyvc import libmodels as LM
from pyvc import interp as I
from pyvc import verify as VF
from pyvc.verify import native, INT_

CERT = "X509Cert"
tm.USORTS.add(CERT)
x509_ok = tm.FunDecl("x509.loads", [BYTES], BOOL)
x509_cert = tm.FunDecl("x509.cert", [BYTES], CERT)
x509_nvb = tm.FunDecl("x509.not_valid_before", [CERT], INT)
x509_nva = tm.FunDecl("x509.not_valid_after", [CERT], INT)
x509_signed_by = tm.FunDecl("x509.signed_by", [CERT, CERT], BOOL)      # issuer's key verifies subject's signature over its TBS bytes
b64e = tm.FunDecl("base64.encode_text", [BYTES], STR)                    # b64encode(b).decode("ASCII")
b64d = tm.FunDecl("base64.decode", [STR], BYTES)

VF.GHOST_SCHEMA["clock_now"] = INT_
VF.GHOST_LOCAL.add("clock_now")
Exception_ = I.builtin_exc("Exception")


@LM.register_external("cryptography.x509.load_pem_x509_certificate")
def _load(ip, st, args, kwargs):
    (pem,) = args
    if kind_of(pem) != "bytes":
        yield st, Raise(I.make_exc(st, "TypeError", "data must be bytes"))
        return
    pt = to_term(pem)
    for st1, ok in ip.branch(st, as_value("bool", x509_ok(pt))):
        if ok:
            c = x509_cert(pt)
            yield st1, Opaque("x509cert", dict(cert=c, not_valid_before_utc=Sym("int", x509_nvb(c)),
                                               not_valid_after_utc=Sym("int", x509_nva(c)),
                                               signature=Opaque("x509sig", dict(cert=c)),
                                               tbs_certificate_bytes=Opaque("x509tbs", dict(cert=c)),
                                               signature_hash_algorithm=Opaque("x509alg", dict(cert=c))))
        else:
            yield st1, Raise(I.make_exc(st1, "ValueError", "Unable to load PEM file"))


LM.EXTERNALS["x509.load_pem_x509_certificate"] = _load


@LM.opaque_method("x509cert", "public_key")
def _public_key(ip, st, recv, args, kwargs):
    yield st, Opaque("x509key", dict(cert=recv.attrs["cert"]))


@LM.opaque_method("x509key", "verify")
def _verify(ip, st, recv, args, kwargs):
    sig, tbs = args[0], args[1]
    if not (isinstance(sig, Opaque) and sig.tag == "x509sig" and isinstance(tbs, Opaque) and tbs.tag == "x509tbs"
            and sig.attrs["cert"] is tbs.attrs["cert"]):
        raise Unsupported("x509 verify of something other than a certificate's own signature over its own TBS bytes")
    ok = x509_signed_by(recv.attrs["cert"], sig.attrs["cert"])
    for st1, b in ip.branch(st, as_value("bool", ok)):
        if b:
            yield st1, None
        else:
            yield st1, Raise(I.make_exc(st1, "Exception", "InvalidSignature"))


@LM.register_external("cryptography.hazmat.primitives.asymmetric.ec.ECDSA")
def _ecdsa(ip, st, args, kwargs):
    yield st, Opaque("ecdsa-algorithm")


@LM.register_external("datetime.datetime.now")
def _now(ip, st, args, kwargs):
    yield st, st.ghost["clock_now"]


LM.EXTERNAL_VALUES["datetime.UTC"] = Opaque("UTC")


@LM.register_external("base64.b64encode")
def _b64encode(ip, st, args, kwargs):
    (b,) = args
    if kind_of(b) != "bytes":
        yield st, Raise(I.make_exc(st, "TypeError", "a bytes-like object is required"))
        return
    yield st, Opaque("b64bytes", dict(src=to_term(b)))


@LM.opaque_method("b64bytes", "decode")
def _b64_decode_text(ip, st, recv, args, kwargs):
    t = b64e(recv.attrs["src"])
    st.assume(tm.Eq(b64d(t), recv.attrs["src"]), axiom=True)
    yield st, Sym("str", t)


@LM.register_external("base64.b64decode")
def _b64decode(ip, st, args, kwargs):
    (s,) = args
    if kind_of(s) not in ("str", "bytes"):
        yield st, Raise(I.make_exc(st, "TypeError", "argument should be a bytes-like object or ASCII string"))
        return
    s2 = st.fork()
    yield s2, Raise(I.make_exc(s2, "Exception", "binascii.Error"))
    if kind_of(s) == "bytes":
        yield st, Sym("bytes", tm.Fresh("b64decoded", BYTES))
    else:
        yield st, Sym("bytes", b64d(to_term(s)))


@native
def pem_of(ip, st, message_bytes):
    """the PEM text the element builds around its (DER) message, encoded"""
    t = tm.Concat(tm.Str("-----BEGIN CERTIFICATE-----"), b64e(to_term(message_bytes)), tm.Str("-----END CERTIFICATE-----"))
    return Sym("bytes", LM.utf8(t))


@native
def cert_loads(ip, st, pem):
    return as_value("bool", x509_ok(to_term(pem)))


@native
def within_validity(ip, st, pem, now):
    c = x509_cert(to_term(pem))
    return as_value("bool", tm.And(tm.Le(x509_nvb(c), to_term(now)), tm.Le(to_term(now), x509_nva(c))))


@native
def issued_by(ip, st, issuer_pem, subject_pem):
    return as_value("bool", x509_signed_by(x509_cert(to_term(issuer_pem)), x509_cert(to_term(subject_pem))))

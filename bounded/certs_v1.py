"""Bounded differential check of version-1 attestation certificates on the REAL code with REAL secp256k1 signatures
(labelled bounded: never counted as proved).

Enumerates element graphs over {device, attestation, ui, signer} - every subset of elements, every signed_by
assignment over the subset plus "root" and a dangling name, with and without tweaks - signs every link with the
certifier's real key and then corrupts a chosen set of links (bit flip in signature / message / tweak, signature by a
different key, swapped signatures, wrong root).  The oracle is *by construction*: a link is valid iff it was signed
with the right (tweaked) key and left alone.  Checked on each certificate:

  C16  loading terminates (alarm) with ValueError or a certificate; every target of a loaded certificate gets a verdict;
       to_dict() -> HSMCertificate(...) yields the same verdicts (save/load round trip)
  C06  a target is valid iff every link on its path verifies; value = designated part of the target's message; the
       failing element is the first one from the root that does not verify

usage: certs_v1.py [--full] [--limit N]     prints one JSON object; exit 0 always (the caller reads `failures`)
"""
import hashlib
import hmac
import itertools
import json
import os
import signal
import sys
import time

REPO = os.environ.get("VERIF_REPO", "/repo")
sys.path.insert(0, os.path.join(REPO, "middleware"))

import secp256k1 as ec  # noqa: E402
from admin.certificate import HSMCertificate, HSMCertificateRoot  # noqa: E402

NAMES = ["device", "attestation", "ui", "signer"]


def priv(label):
    return ec.PrivateKey(hashlib.sha256(label.encode()).digest(), raw=True)


KEYS = {n: priv("key-" + n) for n in NAMES}
ROOT = priv("root")
OTHER = priv("somebody-else")
ROOT_PUB = ROOT.pubkey.serialize(compressed=False).hex()
OTHER_PUB = OTHER.pubkey.serialize(compressed=False).hex()
TWEAK = {n: hashlib.sha256(("tweak-" + n).encode()).digest() for n in NAMES}


def message_of(name):
    """a message from which the element's own public key is extracted the way EXTRACTORS does for its kind"""
    pub = KEYS[name].pubkey.serialize(compressed=False)
    if name == "device":
        return b"\x02\x03" + pub              # last 65 bytes
    if name == "attestation":
        return b"\xff" + pub                  # all but the first byte
    return pub                                # ui, signer: the whole message


def designated_part(name, msg):
    if name == "device":
        return msg[-65:]
    if name == "attestation":
        return msg[1:]
    return msg


_sig_cache = {}


def sign(signer_priv, signer_pub_bytes, msg, tweak):
    key = (signer_pub_bytes, msg, tweak)
    if key not in _sig_cache:
        k = signer_priv
        if tweak is not None:
            t = hmac.new(tweak, signer_pub_bytes, hashlib.sha256).digest()
            k = ec.PrivateKey(signer_priv.tweak_add(t), raw=True)
        _sig_cache[key] = k.ecdsa_serialize(k.ecdsa_sign(msg)).hex()
    return _sig_cache[key]


def flip(hexstr, pos=-1):
    b = bytearray(bytes.fromhex(hexstr))
    b[pos] ^= 0x01
    return bytes(b).hex()


CORRUPTIONS = ["sig-bit", "other-key", "tweak-bit", "swap-sig", "msg-bit"]


def build(subset, parents, tweaked, corrupt, mode):
    """-> (certificate dict, {name: link is valid})"""
    elems = {}
    valid = {}
    for n in subset:
        msg = message_of(n)
        p = parents[n]
        tw = TWEAK[n] if n in tweaked else None
        if p == "root":
            sk, spub = ROOT, ROOT.pubkey.serialize(compressed=False)
        elif p in KEYS:
            sk, spub = KEYS[p], KEYS[p].pubkey.serialize(compressed=False)
        else:
            sk, spub = OTHER, OTHER.pubkey.serialize(compressed=False)
        e = {"name": n, "message": msg.hex(), "signature": sign(sk, spub, msg, tw), "signed_by": p}
        if tw is not None:
            e["tweak"] = tw.hex()
        elems[n] = e
        valid[n] = True
    for k, n in enumerate(sorted(corrupt)):
        kind = CORRUPTIONS[(mode + k) % len(CORRUPTIONS)]
        e = elems[n]
        if kind == "tweak-bit" and "tweak" not in e:
            kind = "sig-bit"
        if kind == "swap-sig" and len(subset) < 2:
            kind = "sig-bit"
        if kind == "sig-bit":
            e["signature"] = flip(e["signature"], -1)
        elif kind == "other-key":
            tw = bytes.fromhex(e["tweak"]) if "tweak" in e else None
            e["signature"] = sign(OTHER, OTHER.pubkey.serialize(compressed=False), bytes.fromhex(e["message"]), tw)
        elif kind == "tweak-bit":
            e["tweak"] = flip(e["tweak"], 0)
        elif kind == "swap-sig":
            other = [m for m in subset if m != n][0]
            e["signature"] = sign(KEYS[other] if parents[n] != other else OTHER,
                                  (KEYS[other] if parents[n] != other else OTHER).pubkey.serialize(compressed=False),
                                  bytes.fromhex(e["message"]), None if "tweak" in e else TWEAK[n])
        elif kind == "msg-bit":
            # corrupt a byte of the message that is NOT part of the embedded key where there is one (device /
            # attestation carry a prefix): the element's own link breaks, its children keep verifying
            if n in ("device", "attestation"):
                e["message"] = flip(e["message"], 0)
            else:
                e["signature"] = flip(e["signature"], 5)
        valid[n] = False
    return {"version": 1, "targets": [], "elements": [elems[n] for n in subset]}, valid


def path_to_root(parents, n, subset):
    seen = []
    while True:
        if n in seen or n not in subset:
            return None
        seen.append(n)
        if parents[n] == "root":
            return seen
        n = parents[n]


def expected(cert, valid, parents, subset, target):
    path = path_to_root(parents, target, subset)
    for n in reversed(path):
        if not valid[n]:
            return (False, n)
    e = [x for x in cert["elements"] if x["name"] == target][0]
    return (True, designated_part(target, bytes.fromhex(e["message"])).hex(), e.get("tweak"))


class Timeout(Exception):
    pass


def _alarm(*a):
    raise Timeout()


def run(full, limit=None):
    signal.signal(signal.SIGALRM, _alarm)
    failures = []
    stats = dict(certificates=0, rejected_by_parse=0, validations=0, verdicts=0, roundtrips=0)
    t0 = time.time()
    n = 0
    for r in range(1, len(NAMES) + 1):
        for subset in itertools.combinations(NAMES, r):
            choices = list(subset) + ["root", "nobody"]
            for assignment in itertools.product(choices, repeat=r):
                parents = dict(zip(subset, assignment))
                loadable = all(path_to_root(parents, t, subset) is not None for t in subset)
                corrupt_sets = [()]
                if loadable:
                    corrupt_sets = [c for k in range(r + 1) for c in itertools.combinations(subset, k)]
                for ci, corrupt in enumerate(corrupt_sets):
                    n += 1
                    if not full and r == 4 and (n % 7) != 0:
                        continue
                    if limit and stats["certificates"] >= limit:
                        break
                    tweaked = [m for k, m in enumerate(subset) if (n >> k) & 1]
                    cert, valid = build(subset, parents, tweaked, corrupt, n)
                    # targets: every element (so that shared ancestors are validated repeatedly), rotated, one duplicate
                    rot = n % r
                    targets = list(subset[rot:] + subset[:rot]) + [subset[0]]
                    cert["targets"] = targets
                    stats["certificates"] += 1
                    what = dict(certificate=cert, root=ROOT_PUB)
                    signal.alarm(2)
                    try:
                        try:
                            c = HSMCertificate(json.loads(json.dumps(cert)))
                        except ValueError:
                            c = None
                        if c is None:
                            stats["rejected_by_parse"] += 1
                            if loadable:
                                failures.append(dict(prop="C16", what="a certificate whose targets all reach the root was rejected", **what))
                            continue
                        if not loadable:
                            failures.append(dict(prop="C16", what="loaded although a target has no cycle-free path to the root", **what))
                            continue
                        root_pub = OTHER_PUB if (n % 11 == 0 and corrupt == ()) else ROOT_PUB
                        res = c.validate_and_get_values(HSMCertificateRoot(root_pub))
                        stats["validations"] += 1
                        v2 = dict(valid)
                        if root_pub != ROOT_PUB:
                            for m in subset:
                                if parents[m] == "root":
                                    v2[m] = False
                            what = dict(certificate=cert, root=root_pub)
                        for t in targets:
                            stats["verdicts"] += 1
                            exp = expected(cert, v2, parents, subset, t)
                            got = res.get(t)
                            if got != exp:
                                failures.append(dict(prop="C06", what="verdict of target %r: expected %r, got %r" % (t, exp, got), **what))
                                break
                        # save / load round trip
                        c2 = HSMCertificate(json.loads(json.dumps(c.to_dict())))
                        res2 = c2.validate_and_get_values(HSMCertificateRoot(root_pub))
                        stats["roundtrips"] += 1
                        if res2 != res:
                            failures.append(dict(prop="C16", what="verdicts differ after to_dict/load round trip: %r vs %r" % (res, res2), **what))
                    except Timeout:
                        failures.append(dict(prop="C16", what="no verdict within 2 s (non-termination)", **what))
                    except Exception as e:          # noqa
                        failures.append(dict(prop="C16", what="unexpected %s: %s" % (type(e).__name__, e), **what))
                    finally:
                        signal.alarm(0)
                    if len(failures) >= 3:
                        break
                if len(failures) >= 3:
                    break
            if len(failures) >= 3:
                break
    stats["seconds"] = round(time.time() - t0, 2)
    return dict(stats=stats, failures=failures,
                bound="all element graphs over 4 names (each signed_by in subset+root+dangling), all subsets of corrupted links "
                      "(%s); 4-element graphs %s" % (", ".join(CORRUPTIONS), "exhaustive" if full else "sampled 1 in 7"))


def replay(path):
    """re-run one recorded failing certificate on the real code and print what it does"""
    rep = json.load(open(path))
    w = rep.get("counter_model") or rep
    signal.signal(signal.SIGALRM, _alarm)
    signal.alarm(5)
    try:
        c = HSMCertificate(w["certificate"])
        print("loaded; validate_and_get_values ->", c.validate_and_get_values(HSMCertificateRoot(w["root"])))
    except Timeout:
        print("no verdict within 5 s (non-termination)")
    except Exception as e:      # noqa
        print("raised %s: %s" % (type(e).__name__, e))
    print("recorded failure:", w.get("what"))


if __name__ == "__main__":
    if "--replay" in sys.argv:
        replay(sys.argv[sys.argv.index("--replay") + 1])
        sys.exit(0)
    lim = None
    if "--limit" in sys.argv:
        lim = int(sys.argv[sys.argv.index("--limit") + 1])
    print(json.dumps(run("--full" in sys.argv, lim)))

"""Bounded check of the SGX quote envelope parser on the REAL code (sgx/envelope.py) - labelled bounded, never counted
as proved.  Serves C15 (gathering side of the SGX path: what the enclave hands out is what ends up in the certificate).

Envelopes are built by construction at the Intel SGX layout (48-byte quote header + 384-byte report body, 4-byte
signature length, 64 + 64 + 384 + 64 bytes of authentication data, u16-sized QE authentication data, u16 type + u32
size + PEM chain, custom message) with random field contents.  The certificates of the chain are random "DER" blobs
whose base64 text is made to end in EVERY character of the base64 alphabet (and in 0, 1 and 2 padding characters), with
and without line wrapping.  Checked on each envelope:

  * every certificate the parser reports decodes (base64) to exactly the blob that was put in, in order;
  * quote / report body / signatures / attestation key / QE authentication data / custom message are the slices put in;
  * a custom message that differs from the tail is refused.

usage: sgx_envelope.py [--full]    prints one JSON object; exit 0 always (the caller reads `failures`)
"""
import base64
import json
import os
import random
import struct
import sys
import time

REPO = os.environ.get("VERIF_REPO", "/repo")
sys.path.insert(0, os.path.join(REPO, "middleware"))

from sgx.envelope import SgxEnvelope  # noqa: E402

B64 = "ABCDEFGHIJKLMNOPQRSTUVWXYZabcdefghijklmnopqrstuvwxyz0123456789+/"
BEGIN = b"-----BEGIN CERTIFICATE-----\n"
END = b"\n-----END CERTIFICATE-----\n"


def blob_ending_in(rnd, ch, pad):
    """random bytes whose standard base64 text ends in `ch` followed by `pad` '=' characters"""
    i = B64.index(ch)
    if (pad == 1 and i % 4) or (pad == 2 and i % 16):
        return None         # with padding, the last character carries zero bits: only some characters can occur
    for _ in range(100000):
        n = rnd.choice([3, 6, 30, 48, 99, 300]) + {0: 0, 1: 2, 2: 1}[pad]
        b = bytes(rnd.getrandbits(8) for _ in range(n))
        t = base64.b64encode(b).decode()
        if t.rstrip("=")[-1] == ch and len(t) - len(t.rstrip("=")) == pad:
            return b
    return None


def pem(blob, wrap):
    t = base64.b64encode(blob)
    if wrap:
        t = b"\n".join(t[i:i + 64] for i in range(0, len(t), 64))
    return BEGIN + t + END


def build(rnd, blobs, wrap, trailer):
    f = lambda n: bytes(rnd.getrandbits(8) for _ in range(n))     # noqa: E731
    parts = dict(header=f(48), report_body=f(384), sig_r=f(32), sig_s=f(32), key_x=f(32), key_y=f(32),
                 qe_report_body=f(384), qe_sig_r=f(32), qe_sig_s=f(32), qe_auth=f(rnd.choice([0, 1, 32, 77])),
                 custom=f(rnd.choice([0, 1, 32, 100])))
    chain = b"".join(pem(b, wrap) for b in blobs) + trailer
    auth = parts["sig_r"] + parts["sig_s"] + parts["key_x"] + parts["key_y"] + parts["qe_report_body"] + parts["qe_sig_r"] + parts["qe_sig_s"]
    rest = auth + struct.pack("<H", len(parts["qe_auth"])) + parts["qe_auth"] + struct.pack("<HI", 5, len(chain)) + chain
    env = parts["header"] + parts["report_body"] + struct.pack("<I", len(rest)) + rest + parts["custom"]
    return env, parts


def check(env, parts, blobs, failures, what):
    try:
        e = SgxEnvelope(env, parts["custom"])
    except Exception as x:      # noqa
        failures.append(dict(prop="C15", what="a well-formed envelope was refused: %s: %s" % (type(x).__name__, x), **what))
        return
    got = list(e.qe_cert_data.certs)
    dec = []
    for c in got:
        try:
            dec.append(base64.b64decode(c, validate=False))
        except Exception as x:      # noqa
            dec.append("undecodable: %s" % x)
    if dec != blobs:
        k = next((i for i in range(max(len(dec), len(blobs))) if i >= len(dec) or i >= len(blobs) or dec[i] != blobs[i]), 0)
        failures.append(dict(prop="C15", what="certificate %d of the envelope's chain is not reported as it was sent (reported text ends %r, "
                                              "sent blob's base64 ends %r)" % (k, bytes(got[k])[-12:] if k < len(got) else None,
                                                                               base64.b64encode(blobs[k])[-12:] if k < len(blobs) else None), **what))
        return
    exp = dict(quote=parts["header"] + parts["report_body"], qe_report_body=parts["qe_report_body"], qe_auth=parts["qe_auth"], custom=parts["custom"],
               sig=parts["sig_r"] + parts["sig_s"], key=parts["key_x"] + parts["key_y"], qe_sig=parts["qe_sig_r"] + parts["qe_sig_s"])
    ad = e.quote_auth_data
    have = dict(quote=e.quote.get_raw_data(), qe_report_body=ad.qe_report_body.get_raw_data(), qe_auth=e.qe_auth_data.data, custom=e.custom_message,
                sig=ad.signature.r + ad.signature.s, key=ad.attestation_key.x + ad.attestation_key.y,
                qe_sig=ad.qe_report_body_signature.r + ad.qe_report_body_signature.s)
    for k in exp:
        if bytes(have[k]) != exp[k]:
            failures.append(dict(prop="C15", what="envelope field %s is not the slice that was sent" % k, **what))
            return


def run(full):
    rnd = random.Random(20261003)
    failures = []
    stats = dict(envelopes=0, certificates=0, refused_tails=0)
    t0 = time.time()
    reps = 4 if full else 1
    for rep in range(reps):
        for ch in B64:
            for pad in (0, 1, 2):
                b0 = blob_ending_in(rnd, ch, pad)
                if b0 is None:
                    continue
                for wrap in (False, True):
                    other = blob_ending_in(rnd, rnd.choice(B64), 0)
                    for blobs in ([b0, other], [other, b0], [b0, other, b0]):
                        trailer = rnd.choice([b"", b"\x00", b"\n"])
                        env, parts = build(rnd, blobs, wrap, trailer)
                        stats["envelopes"] += 1
                        stats["certificates"] += len(blobs)
                        what = dict(envelope=env.hex(), custom=parts["custom"].hex())
                        check(env, parts, blobs, failures, what)
                        if len(failures) >= 3:
                            break
                    if len(failures) >= 3:
                        break
                if len(failures) >= 3:
                    break
            if len(failures) >= 3:
                break
        # a custom message that is not the envelope's tail must be refused
        env, parts = build(rnd, [blob_ending_in(rnd, "A", 0)], True, b"")      # noqa
        try:
            SgxEnvelope(env, parts["custom"] + b"\x01")
            failures.append(dict(prop="C15", what="an envelope whose tail differs from the expected custom message was accepted", envelope=env.hex(),
                                 custom=(parts["custom"] + b"\x01").hex()))
        except ValueError:
            stats["refused_tails"] += 1
    stats["seconds"] = round(time.time() - t0, 2)
    return dict(stats=stats, failures=failures[:3],
                bound="chains of 2-3 certificates whose base64 text ends in each of the 64 alphabet characters x 0/1/2 padding characters, wrapped and "
                      "unwrapped, random field contents (%d repetition%s)" % (reps, "" if reps == 1 else "s"))


def replay(path):
    rep = json.load(open(path))
    w = rep.get("counter_model") or rep
    try:
        e = SgxEnvelope(bytes.fromhex(w["envelope"]), bytes.fromhex(w["custom"]))
        print("parsed; certificates reported:", [bytes(c)[-16:] for c in e.qe_cert_data.certs])
    except Exception as x:      # noqa
        print("raised %s: %s" % (type(x).__name__, x))
    print("recorded failure:", w.get("what"))


if __name__ == "__main__":
    if "--replay" in sys.argv:
        replay(sys.argv[sys.argv.index("--replay") + 1])
        sys.exit(0)
    print(json.dumps(run("--full" in sys.argv)))

"""Bounded check (real code, real P-256 signatures): saving a version-2 certificate element and loading it again keeps
its verdict and its signed bytes.  Elements: sgx_attestation_key and sgx_quote, with report bodies / quotes of the
exact structure size and up to 3 trailing bytes (signed as well).  Prints one JSON object."""
import hashlib
import json
import os
import sys

REPO = os.environ.get("VERIF_REPO", "/repo")
sys.path.insert(0, os.path.join(REPO, "middleware"))

import ecdsa  # noqa: E402
from admin.certificate_v2 import (HSMCertificateV2ElementSGXAttestationKey as AKey,  # noqa: E402
                                  HSMCertificateV2ElementSGXQuote as Quote)
from sgx.envelope import SgxReportBody, SgxQuote  # noqa: E402


def sk(label):
    return ecdsa.SigningKey.from_string(hashlib.sha256(label.encode()).digest(), curve=ecdsa.NIST256p)


class Certifier:
    def __init__(self, key):
        self.key = key

    def get_pubkey(self):
        return self.key.get_verifying_key()


def field_offset(K, path):
    """offset of a (nested) bytes field inside struct K, found on the real class by marking"""
    size = K.get_bytelength()
    for off in range(size):
        buf = bytearray(size)
        buf[off] = 0xA5
        v = K(bytes(buf))
        for p in path:
            v = getattr(v, p)
        if v[0] == 0xA5:
            return off
    raise AssertionError("field not found")


class Timeout(Exception):
    pass


def _alarm(*a):
    raise Timeout()


def graphs():
    """every version-2 element graph over four names - one of them spelled like the root marker "sgx_root" - loads with
    an error or yields a certificate whose validation terminates with a verdict for every target (C16)"""
    import itertools
    import signal
    from admin.certificate import HSMCertificate
    signal.signal(signal.SIGALRM, _alarm)
    names = ["quote", "akey", "ca", "sgx_root"]
    failures, n = [], 0
    for r in range(1, 5):
        for subset in itertools.combinations(names, r):
            choices = list(subset) + ["sgx_root", "nobody"]
            for assignment in itertools.product(choices, repeat=r):
                n += 1
                elems = [{"name": m, "type": "sgx_quote", "message": "aa", "custom_data": "bb", "signature": "cc", "signed_by": p}
                         for m, p in zip(subset, assignment)]
                doc = {"version": 2, "targets": list(subset), "elements": elems}
                signal.alarm(2)
                try:
                    try:
                        c = HSMCertificate.VERSION_MAPPING[2](json.loads(json.dumps(doc)))
                    except ValueError:
                        continue
                    res = c.validate_and_get_values(object())
                    if set(res) != set(subset):
                        failures.append(dict(prop="C16", what="version-2 certificate loaded but not every target got a verdict: %r" % (res,), certificate=doc))
                except Timeout:
                    failures.append(dict(prop="C16", what="version-2 certificate: no verdict within 2 s (non-termination)", certificate=doc))
                except Exception as e:      # noqa
                    failures.append(dict(prop="C16", what="version-2 certificate: unexpected %s: %s" % (type(e).__name__, e), certificate=doc))
                finally:
                    signal.alarm(0)
                if len(failures) >= 2:
                    return n, failures
    return n, failures


def run():
    failures, cases = [], 0
    ng, gf = graphs()
    failures.extend(gf)
    cases += ng
    certifier = sk("certifier")
    att = sk("attestation-key")
    rb_off = field_offset(SgxReportBody, ["report_data", "field"])
    q_off = field_offset(SgxQuote, ["report_body", "report_data", "field"])
    for extra in range(4):
        for enc in ("raw", "uncompressed", "compressed"):
            key_bytes = att.get_verifying_key().to_string(enc)
            auth = b"auth-data-%d" % extra
            body = bytearray(os.urandom(SgxReportBody.get_bytelength()) + bytes([7] * extra))
            body[rb_off:rb_off + 32] = hashlib.sha256(att.get_verifying_key().to_string() + auth).digest()
            sig = certifier.sign_digest(hashlib.sha256(bytes(body)).digest(), sigencode=ecdsa.util.sigencode_der)
            m = {"name": "quoting_enclave", "type": "sgx_attestation_key", "message": bytes(body).hex(), "key": key_bytes.hex(),
                 "auth_data": auth.hex(), "signature": sig.hex(), "signed_by": "platform_ca"}
            for corrupt in (False, True):
                mm = dict(m)
                if corrupt:
                    mm["signature"] = sig[:-1].hex() + "%02x" % (sig[-1] ^ 1)
                e1 = AKey(mm)
                v1 = e1.is_valid(Certifier(certifier))
                e2 = AKey(json.loads(json.dumps(e1.to_dict())))
                v2 = e2.is_valid(Certifier(certifier))
                cases += 1
                if v1 != (not corrupt):
                    failures.append(dict(prop="C07", what="attestation key element: expected verdict %r, got %r" % (not corrupt, v1), element=mm))
                if v1 != v2 or e1._message != e2._message:
                    failures.append(dict(prop="C16", what="sgx_attestation_key element with a %d-byte message: verdict %r before saving, %r after "
                                                         "to_dict/load (%d message bytes written)" % (len(body), v1, v2, len(e2._message)), element=mm))
        custom = b"custom-%d" % extra
        quote = bytearray(os.urandom(SgxQuote.get_bytelength()) + bytes([9] * extra))
        quote[q_off:q_off + 32] = hashlib.sha256(custom).digest()
        sig = att.sign_digest(hashlib.sha256(bytes(quote)).digest(), sigencode=ecdsa.util.sigencode_der)
        m = {"name": "quote", "type": "sgx_quote", "message": bytes(quote).hex(), "custom_data": custom.hex(), "signature": sig.hex(),
             "signed_by": "attestation"}
        e1 = Quote(m)
        v1 = e1.is_valid(Certifier(att))
        e2 = Quote(json.loads(json.dumps(e1.to_dict())))
        v2 = e2.is_valid(Certifier(att))
        cases += 1
        if not v1:
            failures.append(dict(prop="C07", what="genuine quote element rejected", element=m))
        if v1 != v2 or e1._message != e2._message:
            failures.append(dict(prop="C16", what="sgx_quote element: verdict %r before saving, %r after" % (v1, v2), element=m))
    return dict(stats=dict(cases=cases), failures=failures[:3],
                bound="attestation-key and quote elements, structure size + 0..3 signed trailing bytes, 3 key encodings, genuine / corrupted signature; "
                      "all version-2 element graphs over 4 names (one spelled like the root marker), each signed_by in subset + root + dangling")


if __name__ == "__main__":
    print(json.dumps(run()))

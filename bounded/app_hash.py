"""Bounded differential check of admin.ledger_utils.compute_app_hash on the REAL code with the REAL Intel-HEX parser
(ledgerblue): images written by an independent Intel-HEX writer - 1..4 data areas in one or several 64 KiB zones, area
sizes around the powers of two up to 4096, record lengths 1..255, areas written in and out of address order - and the
hash compared with SHA-256 over the writer's own area list in address order.  Labelled bounded; prints one JSON object."""
import hashlib
import itertools
import json
import os
import random
import sys
import tempfile

REPO = os.environ.get("VERIF_REPO", "/repo")
sys.path.insert(0, os.path.join(REPO, "middleware"))


def record(rtype, addr16, data):
    body = bytes([len(data), (addr16 >> 8) & 0xFF, addr16 & 0xFF, rtype]) + data
    return ":" + (body + bytes([(-sum(body)) & 0xFF])).hex().upper()


def write_hex(path, areas, reclen, order):
    """areas: list of (address, bytes); written in the given order of indices"""
    lines = []
    for k in order:
        addr, data = areas[k]
        pos = 0
        upper = None
        while pos < len(data):
            a = addr + pos
            if (a >> 16) != upper:
                upper = a >> 16
                lines.append(record(4, 0, bytes([(upper >> 8) & 0xFF, upper & 0xFF])))
            n = min(reclen, len(data) - pos, 0x10000 - (a & 0xFFFF))
            lines.append(record(0, a & 0xFFFF, data[pos:pos + n]))
            pos += n
    lines.append(record(1, 0, b""))
    with open(path, "w") as f:
        f.write("\n".join(lines) + "\n")


def run(full):
    try:
        from admin.ledger_utils import compute_app_hash
    except Exception as e:      # noqa
        return dict(stats=dict(cases=0), failures=[], skipped="cannot import admin.ledger_utils: %s" % e, bound="-")
    rnd = random.Random(19)
    sizes = [1, 2, 15, 16, 17, 255, 256, 257, 1023, 1024, 1025, 2048, 4095, 4096]
    reclens = [1, 16, 32, 255] if not full else [1, 7, 16, 32, 64, 128, 255]
    failures, cases = [], 0
    tmp = tempfile.mkdtemp(prefix="apphash")
    path = os.path.join(tmp, "app.hex")
    try:
        for nareas in (1, 2, 3) if not full else (1, 2, 3, 4):
            combos = list(itertools.product(sizes, repeat=nareas))
            rnd.shuffle(combos)
            for szs in combos[: (40 if not full else 400)]:
                base = rnd.choice([0x0000, 0xC0D00000, 0x0000FF00])
                areas, addr = [], base
                for s in szs:
                    addr += rnd.choice([16, 64, 0x10000])         # a gap (possibly into the next 64 KiB zone)
                    fill = rnd.choice(["random", "random", "random", "zero", "ff"])
                    areas.append((addr, bytes(rnd.getrandbits(8) for _ in range(s)) if fill == "random"
                                  else bytes([0 if fill == "zero" else 0xFF]) * s))
                    addr += s
                for reclen in reclens:
                    for order in ([list(range(nareas)), list(reversed(range(nareas)))] if nareas > 1 else [[0]]):
                        write_hex(path, areas, reclen, order)
                        cases += 1
                        want = hashlib.sha256(b"".join(d for _, d in sorted(areas))).hexdigest()
                        try:
                            got = compute_app_hash(path).hex()
                        except Exception as e:      # noqa
                            got = "raised %s: %s" % (type(e).__name__, e)
                        if got != want:
                            failures.append(dict(prop="C19", what="compute_app_hash = %s, SHA-256 over the areas in address order = %s" % (got, want),
                                                 areas=[(hex(a), len(d)) for a, d in areas], record_length=reclen, written_in_order=order))
                            if len(failures) >= 3:
                                return dict(stats=dict(cases=cases), failures=failures, bound="see docstring")
    finally:
        try:
            os.unlink(path)
            os.rmdir(tmp)
        except OSError:
            pass
    return dict(stats=dict(cases=cases), failures=failures,
                bound="1..%d areas, sizes %s, record lengths %s, gaps 16 / 64 / 64 KiB, written in and out of address order" % (4 if full else 3, sizes, reclens))


if __name__ == "__main__":
    print(json.dumps(run("--full" in sys.argv)))

"""Replay of counter-models on the real code (filled in per obligation family)."""
import json

REPLAYERS = []      # list of (predicate(prop, ob) -> bool, fn(prop, ob) -> (confirmed, text))


def replayer(pred):
    def deco(f):
        REPLAYERS.append((pred, f))
        return f
    return deco


def replay_obligation(prop, ob):
    import replay.drivers  # noqa: registers replayers
    for pred, fn in REPLAYERS:
        if pred(prop, ob):
            return fn(prop, ob)
    return None, "no replay driver for this obligation family; counter-model and solver output are in this file"


def replay_file(path):
    rep = json.load(open(path))
    if str(rep.get("obligation", "")).startswith("extra:bounded-differential-certs-v1"):
        import os, subprocess
        here = os.path.dirname(os.path.dirname(os.path.abspath(__file__)))
        return subprocess.call(["/venv/bin/python", os.path.join(here, "bounded", "certs_v1.py"), "--replay", path])
    print(json.dumps({k: rep.get(k) for k in ("property", "obligation", "goal", "replay", "replay_input", "replay_confirmed")}, indent=1))
    if rep.get("replay_input") and rep.get("function"):
        try:
            from replay import drivers
            print("re-running the recorded input on the real code now:", drivers.rerun(rep["function"], rep["replay_input"]))
        except Exception as e:      # noqa
            print("re-run not possible: %s: %s" % (type(e).__name__, e))
    return 0

"""Native replays on the REAL code of /repo (scripted fake device, bitcoin.core import shim)."""
import os
import sys
import types

REPO = os.environ.get("VERIF_REPO", "/repo")
MW = os.path.join(REPO, "middleware")


def setup_imports():
    if MW not in sys.path:
        sys.path.insert(0, MW)
    try:
        import bitcoin.core  # noqa
    except Exception:
        core = types.ModuleType("bitcoin.core")
        pkg = types.ModuleType("bitcoin")
        pkg.core = core

        class VarIntSerializer:
            @staticmethod
            def serialize(v):
                if v < 0xfd:
                    return bytes([v])
                if v <= 0xffff:
                    return b"\xfd" + v.to_bytes(2, "little")
                if v <= 0xffffffff:
                    return b"\xfe" + v.to_bytes(4, "little")
                return b"\xff" + v.to_bytes(8, "little")
        core.VarIntSerializer = VarIntSerializer
        sys.modules["bitcoin"] = pkg
        sys.modules["bitcoin.core"] = core


class FakeDongle:
    """scripted device: `script(apdu) -> bytes | Exception` ; records every APDU"""

    def __init__(self, script):
        self.script = script
        self.log = []
        self.opened = True

    def exchange(self, apdu, timeout=None):
        self.log.append(bytes(apdu))
        r = self.script(bytes(apdu))
        if isinstance(r, BaseException):
            raise r
        return bytearray(r)

    def close(self):
        self.opened = False


def c10a():
    """C10-a: the device acknowledges the new PIN, then writing the PIN file fails: the only copy of the PIN the
    device now holds is discarded (file truncated, in-memory copy dropped). Returns (reproduced, text)."""
    setup_imports()
    import builtins
    import tempfile
    import logging
    logging.disable(logging.CRITICAL)
    from comm.platform import Platform
    from comm.protocol import HSM2ProtocolInterrupt
    import ledger.hsm2dongle as H
    from ledger.hsm2dongle import HSM2Dongle
    from ledger.protocol import HSM2ProtocolLedger
    from ledger.pin import FileBasedPin
    Platform.set(Platform.LEDGER)
    tmp = tempfile.mkdtemp(prefix="c10a", dir=os.path.join(os.path.dirname(os.path.abspath(__file__)), "..", ".work"))
    path = os.path.join(tmp, "pin.txt")
    state = {"pin": b"1234abcd", "buf": {}, "new": None}

    def script(apdu):
        cmd = apdu[1]
        if cmd == 0x06:
            return bytes([0x80, 1, 5, 4, 1])
        if cmd == 0x43:
            return bytes([0x80, 2])
        if cmd == 0x02:
            return apdu
        if cmd == 0x45:
            return bytes([0x80, 0x45, 3])
        if cmd == 0x41:
            state["buf"][apdu[2]] = apdu[3]
            return bytes([0x80, 0x41, 0])
        if cmd == 0xFE:
            got = bytes(state["buf"][k] for k in sorted(state["buf"]))
            state["buf"] = {}
            return bytes([0x80, 0xFE, 1 if got == state["pin"] else 0])
        if cmd == 0x08:
            got = bytes(state["buf"][k] for k in sorted(state["buf"]))
            state["buf"] = {}
            state["pin"] = got[1:]
            state["new"] = got[1:]
            return bytes([0x80, 0x08, 0])
        return bytes([0x80, cmd, 0])
    fake = FakeDongle(script)
    H.getDongle = lambda debug: fake
    real_open = builtins.open

    class FailingFile:
        def __init__(self, f):
            self.f = f

        def __enter__(self):
            return self

        def __exit__(self, *a):
            self.f.close()
            return False

        def write(self, data):
            raise OSError(28, "No space left on device")

    def patched_open(p, mode="r", *a, **kw):
        if os.path.abspath(str(p)) == os.path.abspath(path) and "w" in mode:
            return FailingFile(real_open(p, mode, *a, **kw))      # O_TRUNC has happened
        return real_open(p, mode, *a, **kw)
    pin = FileBasedPin(path, b"1234abcd")
    proto = HSM2ProtocolLedger(pin, HSM2Dongle(False))
    builtins.open = patched_open
    try:
        try:
            proto.initialize_device()
            outcome = "returned"
        except HSM2ProtocolInterrupt:
            outcome = "HSM2ProtocolInterrupt"
    finally:
        builtins.open = real_open
    on_disk = real_open(path, "rb").read() if os.path.exists(path) else None
    recoverable = [x for x in (on_disk, b"1234abcd", pin.get_pin(), pin.get_new_pin()) if x]
    reproduced = state["new"] is not None and state["pin"] not in recoverable
    text = ("device PIN after the exchange: %r; PIN file: %r; pin.get_pin(): %r; pin.get_new_pin(): %r; outcome: %s"
            % (state["pin"], on_disk, pin.get_pin(), pin.get_new_pin(), outcome))
    import shutil
    shutil.rmtree(tmp, ignore_errors=True)
    return reproduced, text


if __name__ == "__main__":
    os.makedirs(os.path.join(os.path.dirname(os.path.abspath(__file__)), "..", ".work"), exist_ok=True)
    print(c10a())

"""Concrete replay drivers (real code + scripted fake device)."""

"""Replay of a counter-model on the REAL code, for functions whose inputs are plain data (JSON values, integers,
strings, bytes): the arguments are rebuilt from the solver's model, the real function is called under CPython, and what
it does is compared with what the verifier's path predicted:

  unwind obligation          the real call does not finish within the alarm (non-termination reproduced)
  xpost:no-<Exception>       the real call raises that exception
  post / inv obligations     the real call returns the value (or raises the exception) the path predicted: the
                             behaviour the violated clause talks about is the real behaviour on this input

Runs inside the worker that discharged the obligation (z3 models do not travel between processes)."""
import importlib
import json
import logging
import os
import signal
import sys

from pyvc import terms as tm, solve
from pyvc.values import Sym, JVal, Obj, Opaque
from .modelrec import Rec, NotReconstructible

REPO = os.environ.get("VERIF_REPO", "/repo")


class _Timeout(Exception):
    pass


def _alarm(*a):
    raise _Timeout()


def native_target(file, qualname):
    mw = os.path.join(REPO, "middleware")
    if mw not in sys.path:
        sys.path.insert(0, mw)
    mod = importlib.import_module(file[:-3].replace("/", "."))
    obj = mod
    parts = qualname.split(".")
    for p in parts:
        obj = getattr(obj, p)
    owner = getattr(mod, parts[0]) if len(parts) > 1 else None
    return mod, owner, obj


def describe(v):
    try:
        return json.dumps(v, default=lambda b: "bytes:" + bytes(b).hex())
    except Exception:
        return repr(v)


def replay(ob, contract, seed=0):
    """-> dict(confirmed=True|False|None, text=..., input=...)"""
    env = ob.entry_env
    if env is None:
        return dict(confirmed=None, text="no entry environment recorded for this obligation")
    # only functions of plain data can be replayed: decide that before spending solver time on a model
    def plain(v):
        if isinstance(v, (JVal, Sym)) or v is None or isinstance(v, (bool, int, str, bytes)):
            return True
        if isinstance(v, tuple):
            return all(plain(x) for x in v)
        return False
    if not all(plain(v) for k, v in env.items() if k not in ("self", "cls")):
        return dict(confirmed=None, text="not a function of plain data (an argument is an object): no replay driver for it")
    assertions = list(ob.pc) + [tm.Not(ob.goal)]
    r = solve.z3_check(assertions, 20000, want_model=True, seed=seed, rlimit=3000000)
    if r.verdict != "sat" or r.model is None:
        return dict(confirmed=None, text="no model from z3 (%s) to rebuild an input from" % r.verdict)
    rec = Rec(r.model, assertions)
    args = {}
    try:
        for name, v in env.items():
            if name in ("self", "cls"):
                continue
            args[name] = rec.value(v)
    except NotReconstructible as e:
        return dict(confirmed=None, text="input not reconstructible from the model: %s" % e)
    except Exception as e:      # noqa
        return dict(confirmed=None, text="model evaluation failed: %s: %s" % (type(e).__name__, e))
    try:
        mod, owner, fn = native_target(contract.file, contract.qualname)
    except Exception as e:      # noqa
        return dict(confirmed=None, input=describe(args),
                    text="the real module cannot be imported under CPython here (%s: %s)" % (type(e).__name__, e))
    inp = describe(args)          # (before the call: the real code may update a request in place)
    # receiver
    call = None
    name = contract.qualname.split(".")[-1]
    if owner is None:
        call = lambda: fn(**args)                                   # noqa: E731
    elif name == "__init__":
        call = lambda: owner(**args)                                # noqa: E731
    elif isinstance(owner.__dict__.get(name), (classmethod, staticmethod)):
        call = lambda: getattr(owner, name)(**args)                 # noqa: E731
    else:
        self_v = env.get("self")
        inst = owner.__new__(owner)
        if isinstance(self_v, Obj):
            # fields the contract fixes to constants (e.g. an empty certificate before _parse)
            pass
        for k, dv in (("_targets", []), ("_elements", {})):
            if hasattr(owner, "_parse") and not hasattr(inst, k):
                setattr(inst, k, dv if not isinstance(dv, (list, dict)) else type(dv)())
        inst.logger = logging.getLogger("replay")
        call = lambda: getattr(inst, name)(**args)                  # noqa: E731
    logging.disable(logging.CRITICAL)
    old = signal.signal(signal.SIGALRM, _alarm)
    signal.alarm(5)
    outcome = None
    try:
        try:
            res = call()
            outcome = ("returned", res)
        except _Timeout:
            outcome = ("timeout", None)
        except BaseException as e:      # noqa
            outcome = ("raised", type(e).__name__, str(e)[:200])
    finally:
        signal.alarm(0)
        signal.signal(signal.SIGALRM, old)
    if ob.kind == "unwind":
        ok = outcome[0] == "timeout"
        return dict(confirmed=ok, input=inp, text="real call %s within 5 s" % ("did NOT finish" if ok else "finished: %r" % (outcome,)))
    def independent():
        """With the inputs fixed to the replayed values, can the clause still hold under SOME interpretation of the
        uninterpreted library functions?  If so the model owes its existence to one particular interpretation (e.g. of
        str.isdecimal on a term the code never computes) and the input is not a witness.  -> None (cannot tell: a
        non-scalar input), True (no interpretation saves the clause), False"""
        eqs = []
        for pname, v in env.items():
            if pname in ("self", "cls"):
                continue
            if not isinstance(v, Sym):
                if isinstance(v, (bool, int, str, bytes)) or v is None:
                    continue
                return None
            a = args[pname]
            if v.kind == "int" and isinstance(a, int) and not isinstance(a, bool):
                eqs.append(tm.Eq(v.term, tm.Int(a)))
            elif v.kind == "bool" and isinstance(a, bool):
                eqs.append(tm.Eq(v.term, tm.Bool(a)))
            elif v.kind == "str" and isinstance(a, str):
                eqs.append(tm.Eq(v.term, tm.Str(a)))
            elif v.kind == "bytes" and isinstance(a, bytes):
                eqs.append(tm.Eq(v.term, tm.BytesLit(a)))
            else:
                return None
        r2 = solve.z3_check(list(ob.pc) + eqs + [ob.goal], 10000, want_model=False, seed=seed)
        return r2.verdict == "unsat"

    def qualified(ok, text):
        if ok:
            ind = independent()
            if ind is False:
                return dict(confirmed=None, input=inp, text=text + " - the real code follows the verifier's path, BUT with this input the "
                            "clause can still hold under another interpretation of the uninterpreted library functions: not counted as a replayed counterexample")
            if ind is None:
                text += " (agreement of path and outcome; the clause itself is not re-evaluated natively for non-scalar inputs)"
        return dict(confirmed=ok, input=inp, text=text)

    predicted_exc = ob.exc_class
    if predicted_exc is not None:
        ok = outcome[0] == "raised" and outcome[1] == predicted_exc
        return qualified(ok, "verifier's path raises %s; the real call %s" % (predicted_exc, outcome,))
    pv = ob.result_value
    if pv is not None and pv[0] == "value":
        try:
            want = rec.value(pv[1])
        except NotReconstructible as e:
            return dict(confirmed=None, input=inp, text="real call %r; predicted result not reconstructible (%s)" % (outcome, e))
        got = outcome[1] if outcome[0] == "returned" else None
        if name == "__init__" and outcome[0] == "returned":
            got = None          # a constructor "returns" the new instance; the path's result is None
        same = outcome[0] == "returned" and (got == want or (isinstance(got, tuple) and isinstance(want, tuple) and tuple(got) == tuple(want)))
        return qualified(bool(same), "verifier's path returns %r; the real call %s" % (want, "returned %r" % (got,) if outcome[0] == "returned" else outcome))
    return dict(confirmed=None, input=inp, text="real call: %r (no prediction recorded for this kind of obligation)" % (outcome,))


def rerun(function, input_text):
    """re-execute a recorded replay input on the real code (./check <ID> --replay <file>)"""
    file, qualname = function.split(":", 1)

    def undo(v):
        if isinstance(v, str) and v.startswith("bytes:"):
            return bytes.fromhex(v[6:])
        if isinstance(v, list):
            return [undo(x) for x in v]
        if isinstance(v, dict):
            return {k: undo(x) for k, x in v.items()}
        return v
    args = undo(json.loads(input_text))
    mod, owner, fn = native_target(file, qualname)
    name = qualname.split(".")[-1]
    logging.disable(logging.CRITICAL)
    if owner is None:
        call = lambda: fn(**args)                                   # noqa: E731
    elif name == "__init__":
        call = lambda: owner(**args)                                # noqa: E731
    elif isinstance(owner.__dict__.get(name), (classmethod, staticmethod)):
        call = lambda: getattr(owner, name)(**args)                 # noqa: E731
    else:
        inst = owner.__new__(owner)
        for k, dv in (("_targets", []), ("_elements", {})):
            if hasattr(owner, "_parse"):
                setattr(inst, k, type(dv)())
        inst.logger = logging.getLogger("replay")
        call = lambda: getattr(inst, name)(**args)                  # noqa: E731
    old = signal.signal(signal.SIGALRM, _alarm)
    signal.alarm(5)
    try:
        try:
            out = ("returned", call())
        except _Timeout:
            out = ("did not finish within 5 s",)
        except BaseException as e:      # noqa
            out = ("raised", type(e).__name__, str(e)[:200])
    finally:
        signal.alarm(0)
        signal.signal(signal.SIGALRM, old)
    return out

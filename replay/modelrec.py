"""Reconstruction of concrete Python inputs from a z3 model of an obligation's counter-example."""
from pyvc import terms as tm
from pyvc import values as V
from pyvc.values import Sym, JVal, Obj, Opaque


class NotReconstructible(Exception):
    pass


def string_constants(terms):
    out = set()
    for t in terms:
        for x in tm.subterms(t):
            if x.op == "str" and isinstance(x.val, str):
                out.add(x.val)
    return out


class Rec:
    def __init__(self, model, terms):
        self.z3 = tm.z3mod()
        self.m = model
        self.keys = sorted(string_constants(terms))
        # (dict term, key) pairs the formula actually asks about: a key is put into a rebuilt dict only if the formula
        # mentions it for (a term equal, in the model, to) that dict - the model's default "every key is present" is not
        # information about the input
        self.asked = []
        seen = set()
        for t in terms:
            for x in tm.subterms(t):
                if x.op == "uf" and x.args[0] in ("j.dhas", "j.dget") and x.args[2].op == "str" and not tm.free_bvars(x.args[1]):
                    if (x.args[1], x.args[2].val) not in seen:
                        seen.add((x.args[1], x.args[2].val))
                        self.asked.append((x.args[1], x.args[2].val))
        self._elem = {}

    def ev(self, t):
        return self.m.eval(tm.to_z3(t), model_completion=True)

    def py_int(self, t):
        return self.ev(t).as_long()

    def py_bool(self, t):
        return self.z3.is_true(self.ev(t))

    def py_str(self, t):
        # the BIP32 key-id grammar is an uninterpreted predicate for the solver (assumed contract of BIP32Path): a string
        # the model calls a well-formed path is replaced by a real one
        try:
            ps = tm.FunDecl.registry.get("bip32.path_syntax")
            if ps is not None and self.py_bool(ps(t)):
                return "m/44'/0'/0'/0/0"
        except Exception:
            pass
        # is_hex / unhex are uninterpreted for the solver: when the model says the string is hex, use the hex of the
        # bytes the model assigns to unhex(s), so that the real bytes.fromhex agrees with the model
        try:
            if self.py_bool(V.is_hex(t)):
                return self.py_bytes(V.unhex(t)).hex()
        except NotReconstructible:
            raise
        except Exception:
            pass
        v = self.ev(t)
        try:
            s = v.as_string()
        except Exception:
            raise NotReconstructible("string value %r" % (v,))
        # z3 prints non-ASCII characters as \u{..} escapes
        import re
        return re.sub(r"\\u\{([0-9a-fA-F]+)\}", lambda m: chr(int(m.group(1), 16)), s)

    def py_bytes(self, t):
        n = self.py_int(tm.Len(t))
        if n > 4096:
            raise NotReconstructible("byte string of %d bytes" % n)
        return bytes(self.py_int(tm.Nth(t, tm.Int(i))) & 0xFF for i in range(n))

    def json(self, jt, depth=0):
        if depth > 6:
            raise NotReconstructible("JSON nesting")
        tag = self.py_int(V.j_tag(jt))
        if tag == V.TAG_NONE:
            return None
        if tag == V.TAG_BOOL:
            return self.py_bool(V.j_bval(jt))
        if tag == V.TAG_INT:
            return self.py_int(V.j_ival(jt))
        if tag == V.TAG_FLOAT:
            return 1.5
        if tag == V.TAG_STR:
            return self.py_str(V.j_sval(jt))
        if tag == V.TAG_LIST:
            n = self.py_int(V.j_llen(jt))
            if n > 16:
                raise NotReconstructible("JSON list of %d items" % n)
            return [self.json(V.j_lget(jt, tm.Int(i)), depth + 1) for i in range(n)]
        if tag == V.TAG_DICT:
            d = {}
            me = str(self.ev(jt))
            for dt, k in self.asked:
                if k in d:
                    continue
                if dt not in self._elem:
                    self._elem[dt] = str(self.ev(dt))
                if self._elem[dt] == me and self.py_bool(V.j_dhas(jt, tm.Str(k))):
                    d[k] = self.json(V.j_dget(jt, tm.Str(k)), depth + 1)
            return d
        raise NotReconstructible("JSON tag %r" % tag)

    def value(self, v):
        if isinstance(v, JVal):
            return self.json(v.term)      # (an overlay only records later in-place updates: the entry value is the term)
        if isinstance(v, Sym):
            k = v.kind
            if k == "int":
                return self.py_int(v.term)
            if k == "bool":
                return self.py_bool(v.term)
            if k == "str":
                return self.py_str(v.term)
            if k == "bytes":
                return self.py_bytes(v.term)
            raise NotReconstructible("symbolic %r" % (k,))
        if v is None or isinstance(v, (bool, int, str, bytes)):
            return v
        if isinstance(v, tuple):
            return tuple(self.value(x) for x in v)
        raise NotReconstructible("value %r" % (v,))

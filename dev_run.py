import sys, importlib, time
sys.path.insert(0, "/verif")
from pyvc import verify as VF, run as R
import checker; checker.load_contracts()
names = [a for a in sys.argv[1:] if not a.startswith('-')]
PROP = ([a[2:] for a in sys.argv[1:] if a.startswith('-p')] or [None])[0]
for key, cls in VF.CONTRACTS.items():
    if names and not any(n in key[1] for n in names):
        continue
    if getattr(cls, 'helper', False) or cls.assume_only:
        continue
    v = VF.Verifier("/repo/middleware")
    t0 = time.time()
    res = R.verify_contract(v, cls, prop=PROP)
    print("==", key, res["status"], res["error"], res["stats"], "%.1fs" % (time.time() - t0))
    import collections
    print("   ", dict(collections.Counter(ob.result.verdict for ob in res["obligations"])))
    for ob in res["obligations"]:
        r = ob.result
        flag = {"unsat": "ok  ", "sat": "FAIL", "unknown": "??? "}[r.verdict]
        if r.verdict != "unsat" or "-a" in sys.argv:
            print("  ", flag, ob.oid, r.solver, "%.2f" % r.time)
        if r.verdict != "unsat":
            print("      trace:", ob.trace[-6:])
            print("      goal:", ob.goal)
            if r.model is not None:
                print("      model:", str(r.model)[:1500])
    print("   feasibility calls", v.ip.solver_calls, "time %.1f" % v.ip.solver_time, "oblig time %.1f" % sum(o.result.time for o in res["obligations"]))
    for ob in sorted(res["obligations"], key=lambda o: -o.result.time)[:5]:
        print("   slow:", ob.oid, ob.result.solver, "%.2f" % ob.result.time, ob.result.all)

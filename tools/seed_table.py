"""prints the markdown table of DESIGN.md 11.6 from seeded/*/meta.json (what each seeded change is, what was confirmed, which check catches it)"""
import json, glob, os, re
rows = []
for d in sorted(glob.glob("/verif/seeded/*/")):
    sid = os.path.basename(d.rstrip("/"))
    m = json.load(open(d + "meta.json"))
    c = m.get("confirmed_by_me", {})
    what = (m.get("what_it_breaks") or m.get("what") or m.get("origin") or "").replace("\n", " ").replace("|", "/")
    what = what[:170] + ("..." if len(what) > 170 else "")
    res = c.get("checks_on_scratch_worktree_latest") or c.get("checks_on_scratch_worktree") or ""
    outs = []
    for part in res.split("|"):
        mm = re.search(r"check (C\d+): exit (\d), (\d+) VIOLATION lines; ?(.*)", part.strip())
        if mm:
            ob = mm.group(4).replace(" no-failing-input-found", "").strip()
            ob = ob.split(":", 1)[-1] if ob.startswith(("ledger/", "comm/", "admin/", "signonetime")) else ob
            verdict = {"1": "VIOLATION", "0": "**missed (exit 0)**", "2": "**undecided (exit 2)**"}.get(mm.group(2), "exit " + mm.group(2))
            outs.append("%s: %s%s" % (mm.group(1), verdict, (" `" + ob[:90] + "`") if ob else ""))
    demo = "%s / %s" % (c.get("demo_with_change", "?").strip(), c.get("demo_without_change", "?").strip())
    note = c.get("note", "")
    rows.append("| %s | %s | %s | %s | %s%s |" % (sid, what, demo, (c.get("pinned_suite_with_change") or "").split(",")[0],
                                               "; ".join(outs), (" - " + note) if note else ""))
print("| seed | change (from the sub-agent's meta.json) | demo with / without the change | pinned suite with the change | checks run on a scratch worktree with the change |")
print("|------|------|------|------|------|")
print("\n".join(rows))

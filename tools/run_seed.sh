#!/bin/sh
# developer helper: tools/run_seed.sh <seed id> <check id>... : applies seeded/<id>/patch.diff to a scratch worktree of
# /repo (never to /repo itself), runs the checks against it, records the outcome in meta.json, removes the worktree
id=$1; shift
d=/verif/seeded/$id; w=/tmp/seedrepo_$id
rm -rf $w; git -C /repo worktree prune; git -C /repo worktree add --detach $w HEAD -q >/dev/null 2>&1
(cd $w && git apply $d/patch.diff) || { echo "APPLY FAILED $id"; git -C /repo worktree remove --force $w; exit 9; }
mkdir -p $w/seed_out; cp $d/demo.py $w/seed_out/demo.py 2>/dev/null
(cd $w/middleware && timeout 300 /venv/bin/python ../seed_out/demo.py > /tmp/demo_$id.out 2>&1); with="exit $? $(grep -o "PROPERTY [A-Z]*" /tmp/demo_$id.out | tail -1)"
tests=$(cd $w && timeout 1800 /venv/bin/python -m pytest -q -p no:cacheprovider --timeout=900 --continue-on-collection-errors 2>&1 | tail -1)
(cd $w && git apply -R $d/patch.diff)
(cd $w/middleware && timeout 300 /venv/bin/python ../seed_out/demo.py > /tmp/demo_$id.out 2>&1); without="exit $? $(grep -o "PROPERTY [A-Z]*" /tmp/demo_$id.out | tail -1)"; rm -f /tmp/demo_$id.out
(cd $w && git apply $d/patch.diff)
echo "$id demo with change: $with ; without: $without ; tests with change: $tests"
cd /verif; mkdir -p .work; res=""
for P in "$@"; do
  VERIF_REPO=$w timeout 2400 ./check $P > .work/seed_${id}_$P.out 2>&1; rc=$?
  line="check $P: exit $rc, $(grep -c '^VIOLATION' .work/seed_${id}_$P.out) VIOLATION lines; $(grep '^VIOLATION' .work/seed_${id}_$P.out | head -1 | sed 's/.*obligation=//' | cut -c1-160)"
  echo "$id $line"; res="$res | $line"
done
python3 - "$d" "$res" "$with" "$without" "$tests" <<'PY'
import json, sys
d, res, w, wo, t = sys.argv[1:6]
p = d + "/meta.json"
try:
    m = json.load(open(p))
except Exception:
    m = {}
c = m.setdefault("confirmed_by_me", {})
if res.strip():
    c["checks_on_scratch_worktree_latest"] = res
c.update(demo_with_change=w, demo_without_change=wo, pinned_suite_with_change=t)
json.dump(m, open(p, "w"), indent=1)
PY
git -C /repo worktree remove --force $w

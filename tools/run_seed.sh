#!/bin/sh
# developer helper: tools/run_seed.sh <seed id> <check id>... : applies seeded/<id>/patch.diff to a scratch worktree of
# /repo (never to /repo itself), runs the checks against it, records the outcome in meta.json, removes the worktree
id=$1; shift
d=/verif/seeded/$id; w=/tmp/seedrepo_$id
rm -rf $w; git -C /repo worktree prune; git -C /repo worktree add --detach $w HEAD -q >/dev/null 2>&1
(cd $w && git apply $d/patch.diff) || { echo "APPLY FAILED $id"; git -C /repo worktree remove --force $w; exit 9; }
cd /verif; mkdir -p .work; res=""
for P in "$@"; do
  VERIF_REPO=$w timeout 2400 ./check $P > .work/seed_${id}_$P.out 2>&1; rc=$?
  line="check $P: exit $rc, $(grep -c '^VIOLATION' .work/seed_${id}_$P.out) VIOLATION lines; $(grep '^VIOLATION' .work/seed_${id}_$P.out | head -1 | sed 's/.*obligation=//' | cut -c1-160)"
  echo "$id $line"; res="$res | $line"
done
python3 - "$d" "$res" <<'PY'
import json, sys
d, res = sys.argv[1:3]
p = d + "/meta.json"
try:
    m = json.load(open(p))
except Exception:
    m = {}
m.setdefault("confirmed_by_me", {})["checks_on_scratch_worktree_latest"] = res
json.dump(m, open(p, "w"), indent=1)
PY
git -C /repo worktree remove --force $w

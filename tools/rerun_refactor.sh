#!/bin/sh
# developer helper: tools/rerun_refactor.sh <refactor id> <check id>... : applies refactors/<id>/patch.diff to a scratch
# worktree of /repo, runs the checks against it (expected: exit 0 or 2, never 1), removes the worktree
id=$1; shift
d=/verif/refactors/$id; w=/tmp/refrepo_$id
rm -rf $w; git -C /repo worktree prune; git -C /repo worktree add --detach $w HEAD -q >/dev/null 2>&1
(cd $w && git apply $d/patch.diff) || { echo "APPLY FAILED $id"; git -C /repo worktree remove --force $w; exit 9; }
cd /verif; mkdir -p .work
for P in "$@"; do
  VERIF_REPO=$w timeout 2400 ./check $P > .work/ref_${id}_$P.out 2>&1; rc=$?
  echo "$id check $P: exit $rc, $(grep -c '^VIOLATION' .work/ref_${id}_$P.out) VIOLATION lines; $(grep '^VIOLATION\|^UNSUPPORTED\|^UNDECIDED\|^CHECKER' .work/ref_${id}_$P.out | head -3 | cut -c1-220 | tr '\n' ';')"
done
git -C /repo worktree remove --force $w

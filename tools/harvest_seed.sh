#!/bin/sh
# developer helper: tools/harvest_seed.sh <worktree> <seed id> <check id>...
# saves the uncommitted change of a sub-agent's scratch worktree as seeded/<seed id>/, confirms the demonstration
# with and without the change, runs the pinned test suite on the changed tree, runs the given checks against the
# changed worktree (never against /repo), and removes the worktree.
w=$1; id=$2; shift 2
d=/verif/seeded/$id
mkdir -p $d
git -C $w diff -- middleware > $d/patch.diff
[ -s $d/patch.diff ] || { echo "NO CHANGE in $w"; exit 9; }
cp $w/seed_out/demo.py $d/demo.py 2>/dev/null; cp $w/seed_out/meta.json $d/meta.json 2>/dev/null
with=$(cd $w/middleware && timeout 300 /venv/bin/python ../seed_out/demo.py 2>&1 | grep -o "PROPERTY [A-Z]*" | tail -1)
tests=$(cd $w && timeout 1800 /venv/bin/python -m pytest -q -p no:cacheprovider --timeout=900 --continue-on-collection-errors 2>&1 | tail -1)
(cd $w && git apply -R $d/patch.diff)      # (git stash is shared between worktrees: never used here)
without=$(cd $w/middleware && timeout 300 /venv/bin/python ../seed_out/demo.py 2>&1 | grep -o "PROPERTY [A-Z]*" | tail -1)
(cd $w && git apply $d/patch.diff)
echo "$id demo with change: $with ; without: $without ; tests with change: $tests"
res=""
cd /verif
for P in "$@"; do
  VERIF_REPO=$w timeout 2400 ./check $P > /verif/.work/seed_${id}_$P.out 2>&1; rc=$?
  line="check $P: exit $rc, $(grep -c '^VIOLATION' /verif/.work/seed_${id}_$P.out) VIOLATION lines; $(grep '^VIOLATION' /verif/.work/seed_${id}_$P.out | head -1 | sed 's/.*obligation=//' | cut -c1-160)"
  echo "$id $line"
  res="$res | $line"
done
python3 - "$d" "$with" "$without" "$tests" "$res" <<'PY'
import json, sys
d, w, wo, t, res = sys.argv[1:6]
p = d + "/meta.json"
try:
    m = json.load(open(p))
except Exception:
    m = {}
m["confirmed_by_me"] = {"demo_with_change": w, "demo_without_change": wo, "pinned_suite_with_change": t, "checks_on_scratch_worktree": res}
json.dump(m, open(p, "w"), indent=1)
PY
git -C /repo worktree remove --force $w

#!/bin/sh
# developer helper: re-runs every seeded change (expected exit 1, or the outcome recorded in DESIGN 11.6) and every
# refactoring (expected exit 0 or 2, never a VIOLATION line) against the current machinery, 4 at a time, on scratch worktrees
cd /verif
python3 - <<'PY' > .work/regress_jobs.txt
import json, glob, re, os
for p in sorted(glob.glob('seeded/*/meta.json')):
    m = json.load(open(p)); c = m.get('confirmed_by_me', {})
    s = c.get('checks_on_scratch_worktree_latest') or c.get('checks_on_scratch_worktree') or ''
    ids = sorted(set(re.findall(r'check (C\d\d)', s))) or [m.get('property')]
    print('tools/run_seed.sh', os.path.basename(os.path.dirname(p)), *ids)
for p in sorted(glob.glob('refactors/*/meta.json')):
    m = json.load(open(p)); c = m.get('confirmed_by_me', {})
    s = c.get('checks_on_scratch_worktree') or ''
    ids = sorted(set(re.findall(r'check (C\d\d)', s))) or [m.get('property')]
    print('tools/rerun_refactor.sh', os.path.basename(os.path.dirname(p)), *ids)
PY
xargs -P 4 -I{} sh -c '{}' < .work/regress_jobs.txt > .work/regress.out 2>&1
grep "check C" .work/regress.out | sort

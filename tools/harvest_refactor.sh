#!/bin/sh
# developer helper: tools/harvest_refactor.sh <worktree> <id> <check id>...
# a behaviour-preserving refactoring made by a sub-agent in a scratch worktree: saved as refactors/<id>/, the pinned suite is
# run on it, then the given checks are run against the worktree.  Expected: exit 0 (or 2, undecided); exit 1 is a FALSE ALARM.
w=$1; id=$2; shift 2
d=/verif/refactors/$id
mkdir -p $d
git -C $w diff -- middleware > $d/patch.diff
[ -s $d/patch.diff ] || { echo "NO CHANGE in $w"; exit 9; }
cp $w/seed_out/meta.json $d/meta.json 2>/dev/null
tests=$(cd $w && timeout 1800 /venv/bin/python -m pytest -q -p no:cacheprovider --timeout=900 --continue-on-collection-errors 2>&1 | tail -1)
echo "$id tests with the refactoring: $tests ; $(git -C $w diff --stat -- middleware | tail -1)"
cd /verif; mkdir -p .work; res=""
for P in "$@"; do
  VERIF_REPO=$w timeout 2400 ./check $P > .work/ref_${id}_$P.out 2>&1; rc=$?
  line="check $P: exit $rc, $(grep -c '^VIOLATION' .work/ref_${id}_$P.out) VIOLATION lines; $(grep '^VIOLATION\|^UNSUPPORTED\|^UNDECIDED\|^CHECKER' .work/ref_${id}_$P.out | head -2 | cut -c1-200 | tr '\n' ';')"
  echo "$id $line"; res="$res | $line"
done
python3 - "$d" "$tests" "$res" <<'PY'
import json, sys
d, t, res = sys.argv[1:4]
p = d + "/meta.json"
try:
    m = json.load(open(p))
except Exception:
    m = {}
m["confirmed_by_me"] = {"pinned_suite_with_the_refactoring": t, "checks_on_scratch_worktree": res}
json.dump(m, open(p, "w"), indent=1)
PY
git -C /repo worktree remove --force $w

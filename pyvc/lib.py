"""Python operator / builtin / library models for the symbolic interpreter (core part).

Every partial operation forks an exceptional path (Raise) whose feasibility is decided by the
solver; in spec mode (contracts) operations are total and never fork.
"""
import ast
import enum

from . import terms as tm
from .terms import T, INT, BOOL, STR, BYTES, J
from .values import (Sym, JVal, SymType, SymKey, Obj, PyList, PyDict, FiniteMap, ClassVal, FuncVal, BoundMethod, Builtin,
                     ModuleVal, Opaque, Raise, Unsupported, SymObjSeq, kind_of, to_term, as_value,
                     kind_sort, is_sym)
from . import values as V


def mk_exc(st, name, *args):
    from .interp import make_exc
    return make_exc(st, name, *args)


def is_list_kind(k):
    return isinstance(k, tuple) and k[0] == "list"


def seq_kind(v):
    """kind of v if it is a sequence-like symbolic/concrete value, else None"""
    k = kind_of(v)
    if k in ("str", "bytes") or is_list_kind(k):
        return k
    return None


def elem_value(kind, term):
    """Wrap an element term of a sequence of `kind`."""
    if kind == "bytes":
        return as_value("int", term)
    if kind == "str":
        return as_value("str", term)
    ek = kind[1]
    if ek == "json":
        return JVal(term)
    return as_value(ek, term)


def byte_fact(st, t):
    """0 <= t <= 255 for a byte read out of a bytes value."""
    if t.op != "int":
        st.assume(tm.And(tm.Le(tm.Int(0), t), tm.Le(t, tm.Int(255))), axiom=True)


def len_term(st, v):
    """Length as a term/int for sequence-like values (total)."""
    if isinstance(v, Sym):
        return tm.Len(v.term)
    if isinstance(v, (str, bytes, tuple)):
        return tm.Int(len(v))
    if isinstance(v, (PyList, PyDict)):
        return tm.Int(len(st.cell(v.oid)))
    if isinstance(v, SymObjSeq):
        return v.length
    raise Unsupported("len of %r" % (v,))


def pylist_items(st, v):
    if isinstance(v, PyList):
        return list(st.cell(v.oid))
    if isinstance(v, tuple):
        return list(v)
    return None


def uniform_kind(items):
    ks = {kind_of(x) for x in items}
    if len(ks) == 1:
        k = ks.pop()
        if k in ("int", "bool", "str", "bytes", "json"):
            return k
        if is_list_kind(k):
            return k
    if ks <= {"int", "bool"} and ks:
        return "int"
    return None


def to_seq_sym(st, v):
    """Lift a concrete-spine list/tuple to a symbolic ("list", k) Sym when elements are uniform."""
    if isinstance(v, Sym):
        return v
    items = pylist_items(st, v)
    if items is None:
        raise Unsupported("not a list: %r" % (v,))
    items = [int(x) if isinstance(x, enum.IntEnum) else x for x in items]
    k = uniform_kind(items)
    if k is None:
        raise Unsupported("heterogeneous list cannot be lifted")
    return Sym(("list", k), tm.SeqLit([to_term(x, k) for x in items], kind_sort(k)))


# ------------------------------------------------------------------------------ JSON narrowing
def narrow(ip, st, v):
    """Fork a JSON value by its feasible tags; yields (st, narrowed value).
    none -> None ; bool/int/str -> Sym ; float -> Opaque float ; list/dict -> JVal (tag fixed in pc)."""
    if not isinstance(v, JVal):
        yield st, v
        return
    t = v.term
    tag = V.j_tag(t)
    feas = []
    for k in range(7):
        if ip.feasible(st, tm.Eq(tag, tm.Int(k))):
            feas.append(k)
    if len(feas) > 1 and any(tm.has_quantifier(c) for c in st.pc):
        # quantified facts (all(...) results) may decide the tag: spend more effort before forking
        from . import solve
        keep = []
        for k in feas:
            q = tm.Eq(tag, tm.Int(k))
            r = solve.z3_check(tm.cone(list(st.pc), [q], st.defs) + [q], 5000, rlimit=400000)
            if r.verdict != "unsat":
                keep.append(k)
        feas = keep
    if ip.feasible(st, tm.Or(tm.Lt(tag, tm.Int(0)), tm.Gt(tag, tm.Int(6)))):
        st.assume(tm.And(tm.Le(tm.Int(0), tag), tm.Le(tag, tm.Int(6))), axiom=True)
    for n, k in enumerate(feas):
        s = st if n == len(feas) - 1 else st.fork()
        if len(feas) > 1:
            ip.count_path()
        s.assume(tm.Eq(tag, tm.Int(k)))
        yield s, narrowed(s, v, k)


def narrowed(st, v, k):
    t = v.term
    if k == V.TAG_NONE:
        return None
    if k == V.TAG_BOOL:
        return Sym("bool", V.j_bval(t))
    if k == V.TAG_INT:
        return Sym("int", V.j_ival(t))
    if k == V.TAG_FLOAT:
        return Opaque("float", {"jterm": t})
    if k == V.TAG_STR:
        return Sym("str", V.j_sval(t))
    if k == V.TAG_LIST:
        st.assume(tm.Le(tm.Int(0), V.j_llen(t)), axiom=True)
        st.assume(tm.Lt(V.j_llen(t), tm.Int(2 ** 32)), axiom=True)      # A-MEM: a request line is shorter than 2^32 bytes
        return JList(t)
    st.assume(tm.Le(tm.Int(0), V.j_dlen(t)), axiom=True)
    return JDict(t, v.oid)


class JList:
    """JSON value known to be a list."""
    __slots__ = ("term",)

    def __init__(self, term):
        self.term = term

    def __deepcopy__(self, memo):
        return self


class JDict:
    """JSON value known to be a dict (with optional overlay cell)."""
    __slots__ = ("term", "oid")

    def __init__(self, term, oid=None):
        self.term, self.oid = term, oid

    def __deepcopy__(self, memo):
        return self


def known_tag(ip, st, v):
    """Tag of a JVal if pc determines it, else None."""
    tag = V.j_tag(v.term)
    for k in range(7):
        if ip.must(st, tm.Eq(tag, tm.Int(k))):
            return k
    return None


# ------------------------------------------------------------------------------ comparisons
def eq_total(ip, st, a, b):
    """Python == as bool / Sym bool.  Total (never raises) for the kinds we model."""
    if isinstance(a, enum.Enum) and not isinstance(a, int) or isinstance(b, enum.Enum) and not isinstance(b, int):
        if is_sym(a) or is_sym(b):
            raise Unsupported("enum == symbolic")
        return a == b
    if isinstance(a, SymType) or isinstance(b, SymType):
        if isinstance(b, SymType):
            a, b = b, a
        tagmap = {"dict": V.TAG_DICT, "list": V.TAG_LIST, "str": V.TAG_STR, "int": V.TAG_INT,
                  "bool": V.TAG_BOOL, "float": V.TAG_FLOAT, "NoneType": V.TAG_NONE}
        if isinstance(b, Builtin) and b.name in tagmap:
            return as_value("bool", tm.Eq(V.j_tag(a.jterm), tm.Int(tagmap[b.name])))
        if isinstance(b, SymType):
            return as_value("bool", tm.Eq(V.j_tag(a.jterm), V.j_tag(b.jterm)))
        return False
    if isinstance(a, JVal) or isinstance(b, JVal):
        if isinstance(b, JVal) and not isinstance(a, JVal):
            a, b = b, a
        t = a.term
        tag = V.j_tag(t)
        if isinstance(b, JVal):
            return as_value("bool", tm.Eq(t, b.term)) if t is b.term else _unsup("J == J")
        kb = kind_of(b)
        if kb == "str":
            return as_value("bool", tm.And(tm.Eq(tag, tm.Int(V.TAG_STR)), tm.Eq(V.j_sval(t), to_term(b))))
        if kb in ("int", "bool"):
            bt = to_term(b)
            if kb == "bool":
                bt = tm.Ite(bt, tm.Int(1), tm.Int(0))
            return as_value("bool", tm.Or(
                tm.And(tm.Eq(tag, tm.Int(V.TAG_INT)), tm.Eq(V.j_ival(t), bt)),
                tm.And(tm.Eq(tag, tm.Int(V.TAG_BOOL)), tm.Eq(tm.Ite(V.j_bval(t), tm.Int(1), tm.Int(0)), bt)),
                tm.And(tm.Eq(tag, tm.Int(V.TAG_FLOAT)), V.j_fisint(t, bt))))
        if b is None:
            return as_value("bool", tm.Eq(tag, tm.Int(V.TAG_NONE)))
        raise Unsupported("J == %s" % kb)
    ka, kb = kind_of(a), kind_of(b)
    if isinstance(a, enum.IntEnum):
        a, ka = int(a), "int"
    if isinstance(b, enum.IntEnum):
        b, kb = int(b), "int"
    if not is_sym(a) and not is_sym(b):
        if isinstance(a, (PyList, PyDict)) or isinstance(b, (PyList, PyDict)):
            la, lb = pylist_items(st, a), pylist_items(st, b)
            if isinstance(a, PyList) and isinstance(b, PyList):
                if len(la) != len(lb):
                    return False
                parts = [eq_total(ip, st, x, y) for x, y in zip(la, lb)]
                if all(isinstance(p, bool) for p in parts):
                    return all(parts)
                return as_value("bool", tm.And(*[tm.Bool(p) if isinstance(p, bool) else p.term for p in parts]))
            raise Unsupported("== on containers")
        if isinstance(a, tuple) and isinstance(b, tuple):
            if len(a) != len(b):
                return False
            parts = [eq_total(ip, st, x, y) for x, y in zip(a, b)]
            if all(isinstance(p, bool) for p in parts):
                return all(parts)
            return as_value("bool", tm.And(*[tm.Bool(p) if isinstance(p, bool) else p.term for p in parts]))
        if isinstance(a, (Obj, ClassVal, FuncVal, Opaque, Builtin)) or isinstance(b, (Obj, ClassVal, FuncVal, Opaque, Builtin)):
            if isinstance(a, Obj) and isinstance(b, Obj):
                eqm, _ = a.cls.lookup("__eq__")
                if eqm is not None:
                    raise Unsupported("user __eq__")
                return a.oid == b.oid
            return a is b
        return a == b
    # at least one symbolic
    if ka == "bool" and kb == "int":
        a, ka = Sym("int", tm.Ite(to_term(a), tm.Int(1), tm.Int(0))), "int"
    if kb == "bool" and ka == "int":
        b, kb = Sym("int", tm.Ite(to_term(b), tm.Int(1), tm.Int(0))), "int"
    if ka in ("pylist", "tuple") and is_list_kind(kb):
        a, ka = to_seq_sym(st, a), kb
    if kb in ("pylist", "tuple") and is_list_kind(ka):
        b, kb = to_seq_sym(st, b), ka
    if ka == "tuple" and kb == "tuple":
        if len(a) != len(b):
            return False
        parts = [eq_total(ip, st, x, y) for x, y in zip(a, b)]
        return as_value("bool", tm.And(*[tm.Bool(p) if isinstance(p, bool) else p.term for p in parts]))
    if ka != kb:
        if ka == "none" or kb == "none":
            return False
        if {ka, kb} <= {"int", "bool", "str", "bytes", "none"}:
            return False
        raise Unsupported("== between %s and %s" % (ka, kb))
    return as_value("bool", tm.Eq(to_term(a), to_term(b)))


def _unsup(msg):
    raise Unsupported(msg)


def b_not(v):
    return (not v) if isinstance(v, bool) else as_value("bool", tm.Not(v.term))


def contains_total(ip, st, item, cont):
    """`item in cont` for kinds where it cannot raise."""
    if isinstance(cont, (PyList, tuple)):
        items = pylist_items(st, cont)
        parts = [eq_total(ip, st, item, x) for x in items]
        if all(isinstance(p, bool) for p in parts):
            return any(parts)
        return as_value("bool", tm.Or(*[tm.Bool(p) if isinstance(p, bool) else p.term for p in parts]))
    if isinstance(cont, PyDict):
        d = st.cell(cont.oid)
        if not is_sym(item) and not any(isinstance(k, SymKey) for k in d):
            try:
                return item in d
            except TypeError:
                raise Unsupported("unhashable concrete key")
        parts = [eq_total(ip, st, item, k.sym if isinstance(k, SymKey) else k) for k in d]
        return as_value("bool", tm.Or(*[tm.Bool(p) if isinstance(p, bool) else p.term for p in parts]))
    if isinstance(cont, FiniteMap):
        cell = st.cell(cont.oid)
        parts = []
        for k, (present, val) in cell.items():
            e = eq_total(ip, st, item, k)
            e = tm.Bool(e) if isinstance(e, bool) else e.term
            parts.append(tm.And(e, present))
        return as_value("bool", tm.Or(*parts))
    if isinstance(cont, JDict):
        if cont.oid is not None and not is_sym(item) and item in st.cell(cont.oid):
            return True
        if kind_of(item) != "str":
            raise Unsupported("non-str key in JSON dict membership")
        return as_value("bool", V.dhas(st, cont.term, to_term(item)))
    k = seq_kind(cont)
    if k == "str":
        if kind_of(item) != "str":
            raise Unsupported("non-str in str")
        if not is_sym(item) and not is_sym(cont):
            return item in cont
        if is_sym(item) and item.term.op == "str.from_code" and not is_sym(cont):
            # chr(x) in "<constant>": x is one of the code points (exact)
            x = item.term.args[0]
            codes = sorted({ord(ch) for ch in cont})
            ranges, start, prev = [], None, None
            for c in codes:
                if start is None:
                    start = prev = c
                elif c == prev + 1:
                    prev = c
                else:
                    ranges.append((start, prev))
                    start = prev = c
            if start is not None:
                ranges.append((start, prev))
            return as_value("bool", tm.Or(*[tm.And(tm.Le(tm.Int(a), x), tm.Le(x, tm.Int(b))) for a, b in ranges]))
        return as_value("bool", tm.Contains(to_term(cont), to_term(item)))
    if k == "bytes":
        if kind_of(item) == "int":
            return as_value("bool", tm.Contains(to_term(cont), tm.SeqUnit(to_term(item))))
        return as_value("bool", tm.Contains(to_term(cont), to_term(item)))
    if is_list_kind(k):
        if isinstance(item, enum.IntEnum):
            item = int(item)
        return as_value("bool", tm.Contains(to_term(cont), tm.SeqUnit(to_term(item, k[1]))))
    raise Unsupported("membership in %r" % (cont,))


def order_total(op, a, b):
    ta, tb = to_term(a), to_term(b)
    if isinstance(op, ast.Lt):
        r = tm.Lt(ta, tb)
    elif isinstance(op, ast.LtE):
        r = tm.Le(ta, tb)
    elif isinstance(op, ast.Gt):
        r = tm.Gt(ta, tb)
    else:
        r = tm.Ge(ta, tb)
    return as_value("bool", r)


def compare_total(ip, st, op, a, b):
    """Spec-mode comparison: no exceptions, J values not narrowed (must be used via accessors)."""
    if isinstance(op, ast.Eq):
        return eq_total(ip, st, a, b)
    if isinstance(op, ast.NotEq):
        return b_not(eq_total(ip, st, a, b))
    if isinstance(op, ast.Is):
        return is_total(a, b)
    if isinstance(op, ast.IsNot):
        return b_not(is_total(a, b))
    if isinstance(op, ast.In):
        return contains_total(ip, st, a, b)
    if isinstance(op, ast.NotIn):
        return b_not(contains_total(ip, st, a, b))
    ka, kb = kind_of(a), kind_of(b)
    if isinstance(a, enum.IntEnum):
        a = int(a)
    if isinstance(b, enum.IntEnum):
        b = int(b)
    if not is_sym(a) and not is_sym(b):
        return {ast.Lt: a < b, ast.LtE: a <= b, ast.Gt: a > b, ast.GtE: a >= b}[type(op)]
    if {ka, kb} <= {"int", "bool"}:
        if ka == "bool":
            a = Sym("int", tm.Ite(to_term(a), tm.Int(1), tm.Int(0)))
        if kb == "bool":
            b = Sym("int", tm.Ite(to_term(b), tm.Int(1), tm.Int(0)))
        return order_total(op, a, b)
    raise Unsupported("ordering between %s and %s" % (ka, kb))


def is_total(a, b):
    if a is None or b is None:
        if isinstance(a, JVal) or isinstance(b, JVal):
            j = a if isinstance(a, JVal) else b
            return as_value("bool", tm.Eq(V.j_tag(j.term), tm.Int(V.TAG_NONE)))
        return a is b
    if isinstance(a, bool) or isinstance(b, bool):
        if is_sym(a) or is_sym(b):
            raise Unsupported("`is` with symbolic bool")
        return a is b
    if isinstance(a, Obj) and isinstance(b, Obj):
        return a.oid == b.oid
    if isinstance(a, (ClassVal, FuncVal, Builtin, enum.Enum)) or isinstance(b, (ClassVal, FuncVal, Builtin, enum.Enum)):
        return a is b
    raise Unsupported("`is` on %r, %r" % (a, b))


def compare(ip, st, op, a, b):
    """Exec-mode comparison: yields (st, bool|Sym|Raise)."""
    # container side of in / not in, and ordering on JSON values need narrowing
    if isinstance(op, (ast.In, ast.NotIn)):
        for st1, c in narrow(ip, st, b):
            if isinstance(c, JList):
                if kind_of(a) != "str":
                    raise Unsupported("membership of a non-string in a JSON list")
                k = tm.BoundVar(tm.fresh_name("mi"), INT)
                e = V.j_lget(c.term, k)
                ex = tm.Exists([k], tm.And(tm.Le(tm.Int(0), k), tm.Lt(k, V.j_llen(c.term)),
                                           tm.Eq(V.j_tag(e), tm.Int(V.TAG_STR)), tm.Eq(V.j_sval(e), to_term(a))))
                r = as_value("bool", ex)
                yield st1, (r if isinstance(op, ast.In) else b_not(r))
                continue
            if c is None or isinstance(c, Opaque) or kind_of(c) in ("int", "bool"):
                yield st1, Raise(mk_exc(st1, "TypeError", "argument of type is not iterable"))
                continue
            item = a
            if isinstance(c, FiniteMap) and isinstance(item, JVal) and not ip.spec:
                for st2, kind, _ in fm_lookup(ip, st1, c, item):
                    if kind == "unhashable":
                        yield st2, Raise(mk_exc(st2, "TypeError", "unhashable type"))
                    else:
                        yield st2, (kind == "found") == isinstance(op, ast.In)
                continue
            if isinstance(c, (JDict, PyDict, FiniteMap)) and isinstance(item, JVal):
                # key must be hashable: lists / dicts raise TypeError
                tag = V.j_tag(item.term)
                unh = tm.Or(tm.Eq(tag, tm.Int(V.TAG_LIST)), tm.Eq(tag, tm.Int(V.TAG_DICT)))
                for st2, bad in ip.branch(st1, Sym("bool", unh)):
                    if bad:
                        yield st2, Raise(mk_exc(st2, "TypeError", "unhashable type"))
                    else:
                        for st3, it in narrow(ip, st2, item):
                            if isinstance(c, (JDict, FiniteMap)) and kind_of(it) != "str":
                                yield st3, isinstance(op, ast.NotIn)
                            elif isinstance(it, Opaque):
                                yield st3, isinstance(op, ast.NotIn)   # float keys never present in our dicts
                            else:
                                r = contains_total(ip, st3, it, c)
                                yield st3, (r if isinstance(op, ast.In) else b_not(r))
                continue
            if isinstance(item, JVal) and seq_kind(c) == "str":
                for st3, it in narrow(ip, st1, item):
                    if kind_of(it) != "str":
                        yield st3, Raise(mk_exc(st3, "TypeError", "'in <string>' requires string"))
                    else:
                        r = contains_total(ip, st3, it, c)
                        yield st3, (r if isinstance(op, ast.In) else b_not(r))
                continue
            if isinstance(item, JVal):
                done = False
                for st3, it in narrow(ip, st1, item):
                    if isinstance(it, (JList, JDict, Opaque)):
                        if isinstance(c, (PyList, tuple)) and all(x is None or isinstance(x, str)
                                                                  for x in pylist_items(st3, c)):
                            # a JSON list / object / float equals no str, int or None constant
                            yield st3, isinstance(op, ast.NotIn)
                            continue
                        if isinstance(c, (PyList, tuple)):
                            # element-wise: a JSON container / float equals no constant; against another raw JSON value it
                            # is equal when it is the same value, different when the JSON types are known to differ
                            verdict = False
                            for x in pylist_items(st3, c):
                                if isinstance(x, JVal):
                                    if x.term is item.term:
                                        verdict = True
                                        break
                                    if ip.must(st3, tm.Not(tm.Eq(V.j_tag(x.term), V.j_tag(item.term)))):
                                        continue
                                    verdict = None
                                    break
                                elif x is None or isinstance(x, (str, int, bytes)) or kind_of(x) in ("str", "int", "bool", "bytes"):
                                    continue
                                else:
                                    verdict = None
                                    break
                            if verdict is not None:
                                yield st3, verdict == isinstance(op, ast.In)
                                continue
                        raise Unsupported("JSON container as item of membership test in %r" % (c,))
                    r = contains_total(ip, st3, it, c) if it is not None or isinstance(c, (PyList, tuple)) else False
                    yield st3, (r if isinstance(op, ast.In) else b_not(r))
                continue
            r = contains_total(ip, st1, item, c)
            yield st1, (r if isinstance(op, ast.In) else b_not(r))
        return
    if isinstance(op, (ast.Lt, ast.LtE, ast.Gt, ast.GtE)) and (isinstance(a, JVal) or isinstance(b, JVal)):
        for st1, x in narrow(ip, st, a):
            for st2, y in narrow(ip, st1, b):
                kx, ky = kind_of(x), kind_of(y)
                if {kx, ky} <= {"int", "bool"}:
                    yield st2, compare_total(ip, st2, op, x, y)
                elif kx == ky == "str":
                    raise Unsupported("string ordering")
                elif isinstance(x, Opaque) or isinstance(y, Opaque):
                    if {kx, ky} <= {"int", "bool", "Opaque"}:
                        yield st2, Sym("bool", tm.Fresh("floatcmp", BOOL))
                    else:
                        yield st2, Raise(mk_exc(st2, "TypeError", "ordering not supported"))
                else:
                    yield st2, Raise(mk_exc(st2, "TypeError", "ordering not supported"))
        return
    if isinstance(op, (ast.Lt, ast.LtE, ast.Gt, ast.GtE)):
        ka, kb = kind_of(a), kind_of(b)
        if a is None or b is None or (({ka, kb} & {"str", "bytes"}) and ka != kb):
            yield st, Raise(mk_exc(st, "TypeError", "ordering not supported"))
            return
    yield st, compare_total(ip, st, op, a, b)


# ------------------------------------------------------------------------------ arithmetic
def int_of(v):
    if isinstance(v, bool):
        return int(v)
    if isinstance(v, enum.IntEnum):
        return int(v)
    return v


def binop(ip, st, op, a, b):
    a, b = int_of(a), int_of(b)
    if isinstance(a, JVal) or isinstance(b, JVal):
        if ip.spec:
            raise Unsupported("spec: arithmetic on raw JSON value")
        for st1, x in narrow(ip, st, a):
            for st2, y in narrow(ip, st1, b):
                if isinstance(x, (JList, JDict, Opaque)) or isinstance(y, (JList, JDict, Opaque)) or x is None or y is None:
                    yield st2, Raise(mk_exc(st2, "TypeError", "unsupported operand"))
                else:
                    yield from binop(ip, st2, op, x, y)
        return
    ka, kb = kind_of(a), kind_of(b)
    if ka == "bool" and is_sym(a):
        a, ka = Sym("int", tm.Ite(a.term, tm.Int(1), tm.Int(0))), "int"
    if kb == "bool" and is_sym(b):
        b, kb = Sym("int", tm.Ite(b.term, tm.Int(1), tm.Int(0))), "int"
    # % formatting
    if isinstance(op, ast.Mod) and ka == "str":
        yield from str_format(ip, st, a, b)
        return
    if not is_sym(a) and not is_sym(b) and not isinstance(a, (PyList, PyDict)) and not isinstance(b, (PyList, PyDict)):
        try:
            yield st, _concrete_binop(op, a, b)
        except TypeError as e:
            yield st, Raise(mk_exc(st, "TypeError", str(e)))
        except ZeroDivisionError as e:
            yield st, Raise(mk_exc(st, "ZeroDivisionError", str(e)))
        return
    if isinstance(op, ast.Add):
        if ka == kb == "int":
            yield st, as_value("int", tm.Add(to_term(a), to_term(b)))
            return
        if ka == kb and ka in ("str", "bytes"):
            yield st, as_value(ka, tm.Concat(to_term(a), to_term(b)))
            return
        if (ka in ("pylist",) or is_list_kind(ka)) and (kb in ("pylist",) or is_list_kind(kb)):
            if ka == "pylist" and kb == "pylist":
                yield st, st.new_list(pylist_items(st, a) + pylist_items(st, b))
                return
            sa, sb = to_seq_sym(st, a), to_seq_sym(st, b)
            if sa.kind != sb.kind:
                raise Unsupported("list + list of different kinds")
            yield st, Sym(sa.kind, tm.Concat(sa.term, sb.term))
            return
        if ka == "tuple" and kb == "tuple":
            yield st, a + b
            return
        if {ka, kb} & {"str", "bytes", "none"} and ka != kb:
            yield st, Raise(mk_exc(st, "TypeError", "can only concatenate like types"))
            return
        raise Unsupported("+ on %s, %s" % (ka, kb))
    if ka == kb == "int":
        ta, tb = to_term(a), to_term(b)
        if isinstance(op, ast.Sub):
            yield st, as_value("int", tm.Sub(ta, tb))
        elif isinstance(op, ast.Mult):
            yield st, as_value("int", tm.Mul(ta, tb))
        elif isinstance(op, (ast.FloorDiv, ast.Mod)):
            if tb.op == "int" and tb.val > 0:
                yield st, as_value("int", (tm.Div if isinstance(op, ast.FloorDiv) else tm.Mod)(ta, tb))
            else:
                raise Unsupported("division by non-constant")
        elif isinstance(op, ast.LShift):
            if tb.op == "int" and tb.val >= 0:
                yield st, as_value("int", tm.Mul(ta, tm.Int(2 ** tb.val)))
            else:
                raise Unsupported("<< by non-constant")
        elif isinstance(op, ast.RShift):
            if tb.op == "int" and tb.val >= 0:
                yield st, as_value("int", tm.Div(ta, tm.Int(2 ** tb.val)))
            else:
                raise Unsupported(">> by non-constant")
        elif isinstance(op, ast.BitOr):
            # (x << k) | b  with 0 <= b < 2^k and x*2^k multiple of 2^k  == x*2^k + b
            yield from bit_or(ip, st, ta, tb)
        elif isinstance(op, ast.BitAnd):
            if tb.op == "int" and tb.val >= 0 and (tb.val + 1) & tb.val == 0:
                if ip.spec or ip.must(st, tm.Le(tm.Int(0), ta)):
                    yield st, as_value("int", tm.Mod(ta, tm.Int(tb.val + 1)))
                    return
            raise Unsupported("& with non-mask")
        else:
            raise Unsupported("int op %s" % type(op).__name__)
        return
    if isinstance(op, ast.Mult) and {ka, kb} == {"int", "str"}:
        yield st, opaque_str("repeat")          # "-" * n (console decoration)
        return
    if isinstance(op, ast.Mult) and {ka, kb} == {"int", "pylist"}:
        # [c] * n with a symbolic count: a fresh list r with len(r) == max(n, 0) and every element == c
        lst, cnt = (a, b) if ka == "pylist" else (b, a)
        items = pylist_items(st, lst)
        if len(items) == 1 and kind_of(items[0]) in ("int", "str", "bytes"):
            k = kind_of(items[0])
            r = Sym(("list", k), tm.Fresh("repeat", kind_sort(("list", k))))
            n = to_term(cnt)
            st.assume(tm.Eq(tm.Len(r.term), tm.Max(n, tm.Int(0))), axiom=True)
            q = tm.BoundVar(tm.fresh_name("rk"), INT)
            st.assume(tm.ForAll([q], tm.Implies(tm.And(tm.Le(tm.Int(0), q), tm.Lt(q, tm.Len(r.term))),
                                                tm.Eq(tm.Nth(r.term, q), to_term(items[0])))), axiom=True)
            yield st, r
            return
        raise Unsupported("list * symbolic int for a list that is not a single scalar")
    if isinstance(op, ast.Mult) and {ka, kb} == {"int", "bytes"} and not is_sym(a if ka == "bytes" else b):
        raise Unsupported("bytes * symbolic int")
    raise Unsupported("binop %s on %s, %s" % (type(op).__name__, ka, kb))


def bit_or(ip, st, ta, tb):
    # supported shape: ta = y * 2^k (k>0), 0 <= tb < 2^k  ->  ta + tb ; the side condition is checked
    for x, y in ((ta, tb), (tb, ta)):
        if x.op == "*" and any(a.op == "int" and a.val > 0 and a.val & (a.val - 1) == 0 for a in x.args):
            k = [a.val for a in x.args if a.op == "int"][0]
            cond = tm.And(tm.Le(tm.Int(0), y), tm.Lt(y, tm.Int(k)))
            if ip.spec or ip.must(st, cond):
                yield st, as_value("int", tm.Add(x, y))
                return
    raise Unsupported("| outside the (x<<k)|byte shape")


def _concrete_binop(op, a, b):
    import operator
    f = {ast.Add: operator.add, ast.Sub: operator.sub, ast.Mult: operator.mul, ast.FloorDiv: operator.floordiv,
         ast.Mod: operator.mod, ast.LShift: operator.lshift, ast.RShift: operator.rshift,
         ast.BitOr: operator.or_, ast.BitAnd: operator.and_, ast.BitXor: operator.xor, ast.Pow: operator.pow,
         ast.Div: operator.truediv}[type(op)]
    return f(a, b)


# ------------------------------------------------------------------------------ strings
fmt_opaque = tm.FunDecl("fmt.opaque", [INT], STR)
str_of_obj = tm.FunDecl("str.of_object", [INT], STR)
_fmt_counter = [0]


def opaque_str(tagname="fmt"):
    """A string we do not track (log/error message text): a fresh constant."""
    return Sym("str", tm.Fresh(tagname, STR))


def to_str(ip, st, v, format_spec=None):
    """str(v) / f-string conversion (total; unknown renderings are opaque fresh strings)."""
    if format_spec is not None:
        return opaque_str("fstr")
    if isinstance(v, str):
        return v
    if isinstance(v, bool):
        return str(v)
    if isinstance(v, enum.Enum):
        return opaque_str("enumstr")
    if isinstance(v, int):
        return str(v)
    if isinstance(v, Sym):
        if v.kind == "str":
            return v
        if v.kind == "int":
            t = v.term
            if ip.spec or ip.must(st, tm.Le(tm.Int(0), t)):
                return Sym("str", tm.StrFromInt(t))
            return Sym("str", tm.Ite(tm.Le(tm.Int(0), t), tm.StrFromInt(t),
                                     tm.Concat(tm.Str("-"), tm.StrFromInt(tm.Neg(t)))))
        return opaque_str("str")
    if isinstance(v, Obj):
        sm, owner = v.cls.lookup("__str__")
        if sm is not None:
            ip.pending_str = (sm, v)       # evaluated by caller when it matters
        return opaque_str("objstr")
    return opaque_str("str")


def str_concat(ip, parts):
    if all(isinstance(p, str) for p in parts):
        return "".join(parts)
    return as_value("str", tm.Concat(*[to_term(p) for p in parts])) if parts else ""


def count_format_args(fmt):
    """Number of arguments a %-format literal consumes (None if it uses mapping keys / *)."""
    n, i = 0, 0
    while i < len(fmt):
        if fmt[i] == "%":
            i += 1
            if i >= len(fmt):
                return None
            if fmt[i] == "%":
                i += 1
                continue
            if fmt[i] == "(":
                return None
            while i < len(fmt) and fmt[i] in "#0- +":
                i += 1
            while i < len(fmt) and (fmt[i].isdigit() or fmt[i] == "."):
                i += 1
            if i < len(fmt) and fmt[i] == "*":
                return None
            if i >= len(fmt) or fmt[i] not in "diouxXeEfFgGcrsa":
                return None
            n += 1
        i += 1
    return n


def str_format(ip, st, fmt, args):
    """fmt % args.  Arity mismatches raise TypeError (exactly as CPython); %d on non-numbers too."""
    if is_sym(fmt):
        yield st, opaque_str()
        return
    n = count_format_args(fmt)
    if n is None:
        raise Unsupported("format string %r" % fmt)
    if isinstance(args, tuple):
        items = list(args)
    else:
        items = [args]
        if isinstance(args, (PyDict,)):
            raise Unsupported("% with mapping")
    if len(items) != n:
        yield st, Raise(mk_exc(st, "TypeError", "not all arguments converted during string formatting"
                               if len(items) > n else "not enough arguments for format string"))
        return
    # conversion types
    convs = []
    i = 0
    while i < len(fmt):
        if fmt[i] == "%":
            j = i + 1
            if fmt[j] == "%":
                i = j + 1
                continue
            while fmt[j] not in "diouxXeEfFgGcrsa":
                j += 1
            convs.append((i, j, fmt[j]))
            i = j + 1
        else:
            i += 1
    pieces, pos = [], 0
    exact = True
    for (i0, j, c), a in zip(convs, items):
        pieces.append(fmt[pos:i0].replace("%%", "%"))
        pos = j + 1
        plain = (j == i0 + 1)
        if c in "dioxX":
            k = kind_of(a)
            if isinstance(a, JVal):
                raise Unsupported("%d of raw JSON value")
            if k not in ("int", "bool") and not isinstance(a, enum.IntEnum):
                yield st, Raise(mk_exc(st, "TypeError", "%%%s format: a real number is required" % c))
                return
            if c == "d" and plain:
                pieces.append(to_str(ip, st, int_of(a) if not is_sym(a) else a))
            else:
                pieces.append(opaque_str())
        elif c == "s" and plain:
            pieces.append(to_str(ip, st, a))
        else:
            pieces.append(opaque_str())
    pieces.append(fmt[pos:].replace("%%", "%"))
    yield st, str_concat(ip, pieces)


def fm_lookup(ip, st, fm, key):
    """Look a raw JSON value up in a finite map (keys are str constants).  Yields (state, kind, value) with kind in
    'unhashable' | 'absent' | 'found'.  One state per key that may match, one for "no key matches" (whatever the
    JSON type of the key) - and no fork at all when the path condition already pins the key syntactically."""
    cell = st.cell(fm.oid)
    tag = V.j_tag(key.term)
    is_str = tm.Eq(tag, tm.Int(V.TAG_STR))
    sv = V.j_sval(key.term)
    known = st.facts

    def holds(t):
        return (t.op == "bool" and t.val) or t in known
    for k, (present, val) in cell.items():
        if holds(is_str) and holds(tm.Eq(sv, tm.Str(k))) and holds(present):
            yield st, "found", val
            return
    unh = tm.Or(tm.Eq(tag, tm.Int(V.TAG_LIST)), tm.Eq(tag, tm.Int(V.TAG_DICT)))
    if ip.spec:
        rest = st
    else:
        rest = None
        for st1, bad in ip.branch(st, Sym("bool", unh)):
            if bad:
                yield st1, "unhashable", None
            else:
                rest = st1
        if rest is None:
            return
    for k, (present, val) in list(cell.items()):
        conj = [is_str, tm.Eq(sv, tm.Str(k)), present]
        c = tm.And(*conj)
        if c.op == "bool" and not c.val:
            continue
        if ip.feasible(rest, c):
            s2 = rest.fork()
            for t in conj:
                s2.assume(t)
            ip.count_path()
            yield s2, "found", val
        rest.assume(tm.Not(c))
    if ip.feasible(rest):
        yield rest, "absent", None


# ------------------------------------------------------------------------------ indexing / slicing
def norm_index(i_t, n_t):
    """Python index normalisation for possibly negative i."""
    if i_t.op == "int":
        return i_t if i_t.val >= 0 else tm.Add(n_t, i_t)
    return tm.Ite(tm.Lt(i_t, tm.Int(0)), tm.Add(n_t, i_t), i_t)


def index(ip, st, v, i):
    if kind_of(i) == "bool" and not isinstance(v, (PyDict, FiniteMap, JVal)) and not isinstance(v, JDict):
        # a bool used as a sequence index is the integer 0 / 1
        i = (1 if i else 0) if not is_sym(i) else Sym("int", tm.Ite(i.term, tm.Int(1), tm.Int(0)))
    """v[i] with IndexError / KeyError / TypeError paths."""
    if isinstance(i, enum.IntEnum):
        i = int(i)
    if hasattr(v, "sym_index"):
        yield from v.sym_index(ip, st, i)
        return
    if isinstance(v, JVal):
        if ip.spec:
            # total view: a str key reads the dict view (overlay first), an int the list view
            if v.oid is not None and not is_sym(i) and i in st.cell(v.oid):
                yield st, st.cell(v.oid)[i]
            elif kind_of(i) == "str":
                yield st, JVal(V.j_dget(v.term, to_term(i)))
            else:
                yield st, JVal(V.j_lget(v.term, to_term(int_of(i))))
            return
        for st1, c in narrow(ip, st, v):
            if isinstance(c, (JList, JDict)) or seq_kind(c):
                yield from index(ip, st1, c, i)
            else:
                yield st1, Raise(mk_exc(st1, "TypeError", "object is not subscriptable"))
        return
    if isinstance(i, JVal) and not isinstance(v, (JDict, PyDict, FiniteMap)):
        for st1, ii in narrow(ip, st, i):
            if kind_of(ii) in ("int", "bool"):
                yield from index(ip, st1, v, ii)
            else:
                yield st1, Raise(mk_exc(st1, "TypeError", "indices must be integers"))
        return
    if isinstance(v, JDict):
        if v.oid is not None and not is_sym(i) and i in st.cell(v.oid):
            yield st, st.cell(v.oid)[i]
            return
        if isinstance(i, JVal):
            raise Unsupported("JSON dict indexed by JSON value")
        if kind_of(i) != "str":
            yield st, Raise(mk_exc(st, "KeyError", "non-str key"))
            return
        has = V.dhas(st, v.term, to_term(i))
        if ip.spec:
            yield st, JVal(V.j_dget(v.term, to_term(i)))
            return
        for st1, b in ip.branch(st, Sym("bool", has)):
            if b:
                yield st1, JVal(V.j_dget(v.term, to_term(i)))
            else:
                yield st1, Raise(mk_exc(st1, "KeyError", i))
        return
    if isinstance(v, JList):
        if kind_of(i) not in ("int", "bool"):
            yield st, Raise(mk_exc(st, "TypeError", "list indices must be integers"))
            return
        n = V.j_llen(v.term)
        it = norm_index(to_term(int_of(i)), n)
        ok = tm.And(tm.Le(tm.Int(0), it), tm.Lt(it, n))
        if ip.spec:
            yield st, JVal(V.j_lget(v.term, it))
            return
        for st1, b in ip.branch(st, Sym("bool", ok)):
            if b:
                yield st1, JVal(V.j_lget(v.term, it))
            else:
                yield st1, Raise(mk_exc(st1, "IndexError", "list index out of range"))
        return
    if isinstance(v, FiniteMap):
        cell = st.cell(v.oid)
        if isinstance(i, JVal):
            for st1, kind, val in fm_lookup(ip, st, v, i):
                if kind == "unhashable":
                    yield st1, Raise(mk_exc(st1, "TypeError", "unhashable type"))
                elif kind == "absent":
                    if ip.spec:
                        raise Unsupported("spec: key possibly absent from finite map")
                    yield st1, Raise(mk_exc(st1, "KeyError", "key"))
                else:
                    yield st1, val
            return
        rest = st
        for k, (present, val) in list(cell.items()):
            e = eq_total(ip, rest, i, k)
            c = tm.And(tm.Bool(e) if isinstance(e, bool) else e.term, present)
            if c.op == "bool" and not c.val:
                continue
            if ip.feasible(rest, c):
                s2 = rest.fork()
                s2.assume(c)
                ip.count_path()
                yield s2, val
            rest.assume(tm.Not(c))
        if ip.feasible(rest):
            if ip.spec:
                raise Unsupported("spec: key possibly absent from finite map")
            yield rest, Raise(mk_exc(rest, "KeyError", i))
        return
    if isinstance(v, PyDict):
        d = st.cell(v.oid)
        if isinstance(i, JVal):
            tag = V.j_tag(i.term)
            unh = tm.Or(tm.Eq(tag, tm.Int(V.TAG_LIST)), tm.Eq(tag, tm.Int(V.TAG_DICT)))
            for st1, bad in ip.branch(st, Sym("bool", unh)):
                if bad:
                    yield st1, Raise(mk_exc(st1, "TypeError", "unhashable type"))
                else:
                    for st2, ii in narrow(ip, st1, i):
                        if isinstance(ii, Opaque):
                            yield st2, Raise(mk_exc(st2, "KeyError", "float key"))
                        else:
                            yield from index(ip, st2, v, ii)
            return
        if not is_sym(i) and not any(isinstance(k, SymKey) for k in d):
            try:
                if i in d:
                    yield st, d[i]
                else:
                    yield st, Raise(mk_exc(st, "KeyError", i))
            except TypeError:
                yield st, Raise(mk_exc(st, "TypeError", "unhashable type"))
            return
        # symbolic key (or symbolic stored keys): fork per stored key
        for k in list(d):
            c = eq_total(ip, st, i, k.sym if isinstance(k, SymKey) else k)
            if c is False:
                continue
            if c is True:
                yield st, d[k]
                return
            if ip.feasible(st, c.term):
                s2 = st.fork()
                s2.assume(c.term)
                ip.count_path()
                yield s2, d[k]
            st.assume(tm.Not(c.term))
        if ip.feasible(st):
            yield st, Raise(mk_exc(st, "KeyError", i))
        return
    if isinstance(v, (PyList, tuple)):
        items = pylist_items(st, v)
        if isinstance(i, enum.IntEnum):
            i = int(i)
        if not is_sym(i):
            if not isinstance(i, int):
                yield st, Raise(mk_exc(st, "TypeError", "indices must be integers"))
            elif -len(items) <= i < len(items):
                yield st, items[i]
            else:
                yield st, Raise(mk_exc(st, "IndexError", "index out of range"))
            return
        it = to_term(i)
        for k, x in enumerate(items):
            c = tm.Or(tm.Eq(it, tm.Int(k)), tm.Eq(it, tm.Int(k - len(items))))
            if ip.feasible(st, c):
                s2 = st.fork()
                s2.assume(c)
                yield s2, x
            st.assume(tm.Not(c))
        if ip.feasible(st):
            yield st, Raise(mk_exc(st, "IndexError", "index out of range"))
        return
    if isinstance(v, SymObjSeq):
        it = to_term(int_of(i))
        ok = tm.And(tm.Le(tm.Int(0), it), tm.Lt(it, v.length))
        if ip.spec:
            yield st, ip.lib.objseq_elem(ip, st, v, it)
            return
        for st1, b in ip.branch(st, Sym("bool", ok)):
            if b:
                yield st1, ip.lib.objseq_elem(ip, st1, v, it)
            else:
                raise Unsupported("negative/out-of-range index into object sequence")
        return
    k = seq_kind(v)
    if k is None:
        if v is None or kind_of(v) in ("int", "bool"):
            yield st, Raise(mk_exc(st, "TypeError", "object is not subscriptable"))
            return
        raise Unsupported("index into %r" % (v,))
    if kind_of(i) not in ("int", "bool"):
        yield st, Raise(mk_exc(st, "TypeError", "indices must be integers"))
        return
    i = int_of(i)
    if not is_sym(v) and not is_sym(i):
        try:
            yield st, v[i]
        except IndexError:
            yield st, Raise(mk_exc(st, "IndexError", "index out of range"))
        return
    vt, it = to_term(v), to_term(i)
    n = tm.Len(vt)
    idx = norm_index(it, n)
    ok = tm.And(tm.Le(tm.Int(0), idx), tm.Lt(idx, n))
    if ip.spec:
        yield st, elem_value(k, tm.Nth(vt, idx))
        return
    for st1, b in ip.branch(st, Sym("bool", ok)):
        if b:
            e = tm.Nth(vt, idx)
            if k == "bytes":
                byte_fact(st1, e)
            yield st1, elem_value(k, e)
        else:
            yield st1, Raise(mk_exc(st1, "IndexError", "index out of range"))


def slice_terms(vt, lo, hi):
    """Python slice [lo:hi] (None = omitted) on a sequence term, exact clamping semantics."""
    n = tm.Len(vt)

    def clamp(x, default):
        if x is None:
            return default
        t = to_term(int_of(x))
        if t.op == "int":
            if t.val >= 0:
                return t                      # clamping to n is done by seq.extract itself
            return tm.Max(tm.Add(n, t), tm.Int(0))
        return tm.Ite(tm.Lt(t, tm.Int(0)), tm.Max(tm.Add(n, t), tm.Int(0)), t)
    a = clamp(lo, tm.Int(0))
    b = clamp(hi, n)
    # seq.extract(s, a, b-a): a>=len -> empty ; b-a<=0 -> empty ; overshoot clamps.  a >= 0 here.
    return tm.Extract(vt, a, tm.Sub(b, a))


def slice(ip, st, v, lo, hi):
    if hasattr(v, "sym_slice"):
        yield from v.sym_slice(ip, st, lo, hi)
        return
    if isinstance(v, JVal):
        for st1, c in narrow(ip, st, v):
            if isinstance(c, JList):
                raise Unsupported("slice of JSON list")
            if seq_kind(c):
                yield from slice(ip, st1, c, lo, hi)
            else:
                yield st1, Raise(mk_exc(st1, "TypeError", "object is not subscriptable"))
        return
    for x in (lo, hi):
        if x is not None and kind_of(x) not in ("int", "bool") and not isinstance(x, enum.IntEnum):
            raise Unsupported("slice bound of kind %s" % kind_of(x))
    if isinstance(v, (PyList, tuple)):
        items = pylist_items(st, v)
        if is_sym(lo) or is_sym(hi):
            v = to_seq_sym(st, v)
        else:
            r = items[int_of(lo) if lo is not None else None:int_of(hi) if hi is not None else None]
            yield st, (st.new_list(r) if isinstance(v, PyList) else tuple(r))
            return
    k = seq_kind(v)
    if k is None:
        raise Unsupported("slice of %r" % (v,))
    if not is_sym(v) and not is_sym(lo) and not is_sym(hi):
        yield st, v[int_of(lo) if lo is not None else None:int_of(hi) if hi is not None else None]
        return
    yield st, as_value(k, slice_terms(to_term(v), lo, hi))


def setitem(ip, st, cont, key, val):
    if isinstance(key, enum.IntEnum):
        key = int(key)
    if isinstance(cont, PyDict):
        if isinstance(key, JVal):
            tag = V.j_tag(key.term)
            unh = tm.Or(tm.Eq(tag, tm.Int(V.TAG_LIST)), tm.Eq(tag, tm.Int(V.TAG_DICT)))
            for st1, bad in ip.branch(st, Sym("bool", unh)):
                if bad:
                    yield st1, Raise(mk_exc(st1, "TypeError", "unhashable type"))
                else:
                    for st2, kk in narrow(ip, st1, key):
                        if isinstance(kk, (Opaque, JVal)):
                            raise Unsupported("dict store with a float / raw JSON key")
                        yield from setitem(ip, st2, cont, kk, val)
            return
        d = st.cell(cont.oid)
        if not is_sym(key) and not any(isinstance(k, SymKey) for k in d):
            st.cell(cont.oid, write=True)[key] = val
            yield st, None
            return
        # association-list semantics: overwrite the stored key that equals `key`, else append
        rest = st
        for k in list(d):
            c = eq_total(ip, rest, key, k.sym if isinstance(k, SymKey) else k)
            if c is False:
                continue
            if c is True:
                rest.cell(cont.oid, write=True)[k] = val
                yield rest, None
                return
            if ip.feasible(rest, c.term):
                s2 = rest.fork()
                s2.assume(c.term)
                ip.count_path()
                s2.cell(cont.oid, write=True)[k] = val
                yield s2, None
            rest.assume(tm.Not(c.term))
        if ip.feasible(rest):
            rest.cell(cont.oid, write=True)[SymKey(key) if is_sym(key) else key] = val
            yield rest, None
        return
    if isinstance(cont, FiniteMap):
        if isinstance(key, JVal):
            for st1, kk in narrow(ip, st, key):
                if isinstance(kk, (JList, JDict)):
                    yield st1, Raise(mk_exc(st1, "TypeError", "unhashable type"))
                elif kind_of(kk) != "str":
                    raise Unsupported("finite map store with a non-str key")
                else:
                    yield from setitem(ip, st1, cont, kk, val)
            return
        rest = st
        for k in list(st.cell(cont.oid)):
            e = eq_total(ip, rest, key, k)
            c = tm.Bool(e) if isinstance(e, bool) else e.term
            if c.op == "bool" and not c.val:
                continue
            if ip.feasible(rest, c):
                s2 = rest.fork()
                s2.assume(c)
                ip.count_path()
                s2.cell(cont.oid, write=True)[k] = (tm.TRUE, val)
                yield s2, None
            rest.assume(tm.Not(c))
        if ip.feasible(rest):
            raise Unsupported("store into a finite map with a key possibly outside its universe")
        return
    if isinstance(cont, PyList):
        if is_sym(key):
            raise Unsupported("list store with symbolic index")
        c = st.cell(cont.oid, write=True)
        if -len(c) <= key < len(c):
            c[key] = val
            yield st, None
        else:
            yield st, Raise(mk_exc(st, "IndexError", "assignment index out of range"))
        return
    if isinstance(cont, JVal):
        for st1, c in narrow(ip, st, cont):
            if isinstance(c, JDict):
                if c.oid is None or is_sym(key):
                    raise Unsupported("store into JSON dict without overlay")
                st1.cell(c.oid, write=True)[key] = val
                yield st1, None
            elif isinstance(c, JList):
                raise Unsupported("store into JSON list")
            else:
                yield st1, Raise(mk_exc(st1, "TypeError", "object does not support item assignment"))
        return
    raise Unsupported("item assignment on %r" % (cont,))


def ite_value(c, a, b):
    """ite over values (spec mode)."""
    ka, kb = kind_of(a), kind_of(b)
    if a is b:
        return a
    if ka == kb or {ka, kb} <= {"int", "bool"} and ka == kb:
        if ka in ("int", "bool", "str", "bytes") or is_list_kind(ka):
            return as_value(ka, tm.Ite(c, to_term(a), to_term(b)))
        if ka == "json":
            return JVal(tm.Ite(c, a.term, b.term))
    if ka == "tuple" and kb == "tuple" and len(a) == len(b):
        return tuple(ite_value(c, x, y) for x, y in zip(a, b))
    raise Unsupported("ite over %s / %s" % (ka, kb))

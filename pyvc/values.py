"""Value model of the symbolic interpreter.

A value is either a concrete Python value (int, bool, str, bytes, None, tuple, list, dict, real
Enum members) or one of the wrappers below.
"""
import enum
from . import terms as tm
from .terms import T, INT, BOOL, STR, BYTES, J


class Unsupported(Exception):
    """Construct outside the verified subset: the function is reported unsupported (exit 2)."""


# kinds: "int" "bool" "str" "bytes" "float" ("list", kind) ("arr", kind)
def kind_sort(kind):
    if kind == "int":
        return INT
    if kind == "bool":
        return BOOL
    if kind == "str":
        return STR
    if kind == "bytes":
        return BYTES
    if kind == "json":
        return J
    if kind == "float":
        return "Float!"          # never printed: floats are opaque
    if isinstance(kind, tuple) and kind[0] == "list":
        return tm.SeqOf(kind_sort(kind[1]))
    raise Unsupported("kind %r" % (kind,))


class Sym:
    """Symbolic value of a Python kind backed by an SMT term."""
    __slots__ = ("kind", "term")

    def __init__(self, kind, term):
        assert isinstance(term, T), term
        self.kind, self.term = kind, term

    def __repr__(self):
        return "Sym(%s, %r)" % (self.kind, self.term)

    def __deepcopy__(self, memo):
        return self


class JVal:
    """JSON value (sort J).  `oid`, when set, names a heap cell (a dict) recording in-place key
    updates of a dict value (e.g. request["keyId"] = BIP32Path(...))."""
    __slots__ = ("term", "oid")

    def __init__(self, term, oid=None):
        self.term, self.oid = term, oid

    def __repr__(self):
        return "JVal(%r)" % (self.term,)

    def __deepcopy__(self, memo):
        return self


class SymType:
    """Result of type(x) on a JSON value."""
    __slots__ = ("jterm",)

    def __init__(self, jterm):
        self.jterm = jterm

    def __deepcopy__(self, memo):
        return self


class Obj:
    """Handle of an instance of a repo (or modelled) class; its fields live in the heap cell
    state.heap[oid] (a dict), so that handles stay valid across state forks."""
    __slots__ = ("cls", "oid")

    def __init__(self, cls, oid):
        self.cls, self.oid = cls, oid

    def __repr__(self):
        return "<Obj %s #%d>" % (self.cls.name, self.oid)

    def __deepcopy__(self, memo):
        return self


class PyList:
    """Handle of a mutable Python list with a concrete spine (cell: list of values)."""
    __slots__ = ("oid",)

    def __init__(self, oid):
        self.oid = oid

    def __deepcopy__(self, memo):
        return self

    def __repr__(self):
        return "<list #%d>" % self.oid


class PyDict:
    """Handle of a mutable Python dict with concrete keys (cell: dict key -> value)."""
    __slots__ = ("oid",)

    def __init__(self, oid):
        self.oid = oid

    def __deepcopy__(self, memo):
        return self

    def __repr__(self):
        return "<dict #%d>" % self.oid


class SymKey:
    """A symbolic key stored in a PyDict cell (the dict is then an association list: lookups and stores compare the
    key with every stored key).  Hash-consed terms make structural identity cheap."""
    __slots__ = ("sym",)

    def __init__(self, sym):
        self.sym = sym

    def __hash__(self):
        return hash((self.sym.kind, id(self.sym.term)))

    def __eq__(self, other):
        return isinstance(other, SymKey) and other.sym.kind == self.sym.kind and other.sym.term is self.sym.term

    def __repr__(self):
        return "SymKey(%r)" % (self.sym,)

    def __deepcopy__(self, memo):
        return self


class SymObjSeq:
    """A symbolic-length list of instances of one class, stored as struct-of-arrays:
    fields[name] = (kind, Array Int <sort>) ; length term."""

    def __init__(self, cls, length, fields):
        self.cls, self.length, self.fields = cls, length, fields

    def __deepcopy__(self, memo):
        return self


class FiniteMap:
    """Handle of a dict whose keys range over a finite, known universe of constants (e.g. the four element
    names of a v1 certificate).  Cell: {key: (present: Bool term, value)} for every key of the universe."""
    __slots__ = ("oid",)

    def __init__(self, oid):
        self.oid = oid

    def __deepcopy__(self, memo):
        return self

    def __repr__(self):
        return "<fmap #%d>" % self.oid


class ClassVal:
    def __init__(self, name, module, bases, attrs, node=None, pycls=None, qualname=None):
        self.name, self.module, self.bases, self.attrs = name, module, bases, attrs
        self.node, self.pycls = node, pycls
        self.qualname = qualname or name

    def __deepcopy__(self, memo):
        return self

    def __repr__(self):
        return "<class %s>" % self.name

    def mro(self):
        out = [self]
        for b in self.bases:
            for c in (b.mro() if isinstance(b, ClassVal) else []):
                if c not in out:
                    out.append(c)
        return out

    def lookup(self, name):
        for c in self.mro():
            if name in c.attrs:
                return c.attrs[name], c
        return None, None

    def is_subclass(self, other):
        if self is other:
            return True
        if self.pycls is not None and other.pycls is not None and isinstance(self.pycls, type) \
                and isinstance(other.pycls, type) and not self.bases and not other.bases:
            return issubclass(self.pycls, other.pycls)
        for b in self.bases:
            if b.is_subclass(other):
                return True
        if self.pycls is not None and other.pycls is not None and isinstance(self.pycls, type) \
                and isinstance(other.pycls, type):
            try:
                return issubclass(self.pycls, other.pycls)
            except TypeError:
                return False
        return False


class FuncVal:
    def __init__(self, node, module, qualname, closure=None, cls=None, kind="function"):
        self.node, self.module, self.qualname = node, module, qualname
        self.closure, self.cls, self.kind = closure, cls, kind   # kind: function|static|class|property

    def __deepcopy__(self, memo):
        return self

    def __repr__(self):
        return "<func %s>" % self.qualname


class BoundMethod:
    def __init__(self, func, self_obj):
        self.func, self.self_obj = func, self_obj

    def __repr__(self):
        return "<bound %r>" % (self.func,)


class Builtin:
    def __init__(self, name, impl):
        self.name, self.impl = name, impl

    def __deepcopy__(self, memo):
        return self

    def __repr__(self):
        return "<builtin %s>" % self.name


class ModuleVal:
    def __init__(self, name, env, path=None):
        self.name, self.env, self.path = name, env, path

    def __deepcopy__(self, memo):
        return self

    def __repr__(self):
        return "<module %s>" % self.name


class Opaque:
    """A value we know nothing about except an identity tag (external object, logger, file...).
    Immutable: attrs are fixed at creation."""

    def __init__(self, tag, attrs=None):
        self.tag = tag
        self.attrs = attrs if attrs is not None else {}

    def __deepcopy__(self, memo):
        return self

    def __repr__(self):
        return "<opaque %s>" % self.tag


class Raise:
    """Exceptional result of an expression: carries the exception object (Obj)."""
    __slots__ = ("exc",)

    def __init__(self, exc):
        self.exc = exc


# ------------------------------------------------------------------------------------ JSON theory
TAG_NONE, TAG_BOOL, TAG_INT, TAG_FLOAT, TAG_STR, TAG_LIST, TAG_DICT = range(7)
TAG_NAMES = ["none", "bool", "int", "float", "str", "list", "dict"]
j_tag = tm.FunDecl("j.tag", [J], INT)
j_ival = tm.FunDecl("j.ival", [J], INT)
j_bval = tm.FunDecl("j.bval", [J], BOOL)
j_sval = tm.FunDecl("j.sval", [J], STR)
j_llen = tm.FunDecl("j.llen", [J], INT)
j_lget = tm.FunDecl("j.lget", [J, INT], J)
j_dhas = tm.FunDecl("j.dhas", [J, STR], BOOL)
j_dget = tm.FunDecl("j.dget", [J, STR], J)
j_dlen = tm.FunDecl("j.dlen", [J], INT)
j_fisint = tm.FunDecl("j.float_equals_int", [J, INT], BOOL)

# hex strings (the meaning of "hex string" is "bytes.fromhex accepts it")
is_hex = tm.FunDecl("is_hex", [STR], BOOL)
unhex = tm.FunDecl("unhex", [STR], BYTES)
hexs = tm.FunDecl("hexs", [BYTES], STR)


def is_sym(v):
    return isinstance(v, (Sym, JVal))


def kind_of(v):
    if isinstance(v, Sym):
        return v.kind
    if isinstance(v, JVal):
        return "json"
    if isinstance(v, bool):
        return "bool"
    if isinstance(v, int):
        return "int"
    if isinstance(v, str):
        return "str"
    if isinstance(v, (bytes, bytearray)):
        return "bytes"
    if v is None:
        return "none"
    if isinstance(v, float):
        return "float"
    if isinstance(v, PyList):
        return "pylist"
    if isinstance(v, tuple):
        return "tuple"
    if isinstance(v, PyDict):
        return "pydict"
    return type(v).__name__


def to_term(v, kind=None):
    """Lift a value to an SMT term of its kind."""
    if isinstance(v, Sym):
        return v.term
    if isinstance(v, JVal):
        return v.term
    if isinstance(v, bool):
        return tm.Bool(v)
    if isinstance(v, enum.Enum) and not isinstance(v, int):
        raise Unsupported("non-int enum to term")
    if isinstance(v, int):
        return tm.Int(int(v))
    if isinstance(v, str):
        return tm.Str(v)
    if isinstance(v, (bytes, bytearray)):
        return tm.BytesLit(bytes(v))
    if isinstance(v, (list, tuple)):
        if kind is None:
            if not v:
                raise Unsupported("empty list needs kind")
            kind = ("list", kind_of(v[0]))
        ek = kind[1]
        return tm.SeqLit([to_term(x, ek) for x in v], kind_sort(ek))
    raise Unsupported("to_term(%r)" % (v,))


def as_value(kind, term):
    """Normalise a term back to a concrete value when it is a literal."""
    if kind == "int" and term.op == "int":
        return term.val
    if kind == "bool" and term.op == "bool":
        return term.val
    if kind == "str" and term.op == "str":
        return term.val
    if kind == "bytes":
        lit = tm.seq_literal_elems(term)
        if lit is not None and all(e.op == "int" and 0 <= e.val < 256 for e in lit):
            return bytes(e.val for e in lit)
    return Sym(kind, term)


def dhas(st, d, k):
    """j.dhas(d, k) with the cardinality axiom instantiated for the constant keys asked so far:
    distinct present keys are counted by j.dlen (sum of presence indicators <= dlen)."""
    t = j_dhas(d, k)
    if k.op == "str" and st is not None:
        reg = getattr(st, "jkeys", None)
        if reg is None:
            reg = st.jkeys = {}
        keys = reg.get(d, ())
        if k not in keys:
            keys = keys + (k,)
            reg[d] = keys
            if len(keys) > 1:
                total = tm.Add(*[tm.Ite(j_dhas(d, kk), tm.Int(1), tm.Int(0)) for kk in keys])
                st.assume(tm.Le(total, j_dlen(d)))
            else:
                st.assume(tm.Implies(j_dhas(d, k), tm.Le(tm.Int(1), j_dlen(d))))
    return t


class GenExp:
    """a generator expression not yet consumed (its node and defining frame).  NOT a tuple: every consumer has to ask
    for it by name (is_genexp), anything else that meets one reports "unsupported" instead of treating it as data"""
    def __init__(self, node, frame):
        self.node, self.frame = node, frame

    def __getitem__(self, k):          # v[1] / v[2], for the consumers written against the former triple
        return ("genexp", self.node, self.frame)[k]

    def __deepcopy__(self, memo):
        import copy
        return GenExp(self.node, copy.deepcopy(self.frame, memo))


def is_genexp(v):
    return isinstance(v, GenExp)


_KW_CACHE = {}


def ignores_kwargs(fn):
    """does the model function `fn(..., kwargs)` never look at its keyword arguments?  (source scan, cached; wrappers are
    followed through __wrapped__).  Used to refuse - as "unsupported" - a call that passes keyword arguments to a model
    that would silently drop them (a model must not be applied to a call shape it does not describe)."""
    import inspect
    seen = 0
    while hasattr(fn, "__wrapped__") and seen < 5:
        fn = fn.__wrapped__
        seen += 1
    key = getattr(fn, "__code__", None)
    if key is None:
        return False
    if key in _KW_CACHE:
        return _KW_CACHE[key]
    try:
        src = inspect.getsource(fn)
    except (OSError, TypeError):
        _KW_CACHE[key] = False
        return False
    body = src.split(":", 1)[1] if ":" in src else src
    header_end = src.find("):")
    body = src[header_end:] if header_end >= 0 else src
    r = "kwargs" not in body
    _KW_CACHE[key] = r
    return r


def audit_kwargs(fn, name, kwargs):
    if kwargs and ignores_kwargs(fn):
        import os
        if os.environ.get("VERIF_AUDIT_KWARGS"):
            with open(os.environ["VERIF_AUDIT_KWARGS"], "a") as fh:
                fh.write("%s %s\n" % (name, sorted(kwargs)))
            return
        raise Unsupported("keyword argument(s) %s of %s are not modelled" % (", ".join(sorted(kwargs)), name))

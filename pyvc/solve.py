"""Solver portfolio: in-process z3 first, then cvc5 / z3-4.8 / z3-new command lines.

Verdicts: 'unsat' | 'sat' | 'unknown'.  A definite answer from one solver contradicted by a
definite answer of another raises SolverDisagreement (checker error, exit 3).
"""
import os
import subprocess
import tempfile
import time
import shutil

from . import terms as tm


class SolverDisagreement(Exception):
    pass


CLI = [
    ("cvc5", ["/usr/bin/cvc5", "--strings-exp", "--lang=smt2"], "--tlimit=%d", 1000),
    ("z3-4.8", ["/usr/bin/z3", "-smt2"], "-T:%d", 1),
    ("z3-5.1", ["z3-new", "-smt2"], "-T:%d", 1),
]
CLI = [c for c in CLI if shutil.which(c[1][0])]


class Result:
    __slots__ = ("verdict", "solver", "time", "model", "detail", "all")

    def __init__(self, verdict, solver, t, model=None, detail="", all_=None):
        self.verdict, self.solver, self.time, self.model, self.detail = verdict, solver, t, model, detail
        self.all = all_ or {}


def z3_check(assertions, timeout_ms=2000, want_model=False, seed=0, rlimit=None):
    """In-process z3.  With `rlimit` the effort bound is z3's deterministic resource counter, so the answer
    does not depend on how busy the machine is (the wall-clock timeout stays as a safety net)."""
    z3 = tm.z3mod()
    s = z3.Solver()
    s.set("timeout", int(timeout_ms))
    if rlimit:
        s.set("rlimit", int(rlimit))
    if seed:
        s.set("random_seed", int(seed) % (2 ** 31))
    for a in assertions:
        s.add(tm.to_z3(a))
    t0 = time.time()
    try:
        r = s.check()
    except z3.Z3Exception as e:
        return Result("unknown", "z3py", time.time() - t0, detail=str(e))
    dt = time.time() - t0
    if r == z3.unsat:
        return Result("unsat", "z3py", dt)
    if r == z3.sat:
        return Result("sat", "z3py", dt, model=s.model() if want_model else None)
    return Result("unknown", "z3py", dt, detail=s.reason_unknown())


def cli_check(name, assertions, timeout_s, workdir=None, script=None):
    spec = [c for c in CLI if c[0] == name][0]
    _, cmd, tflag, mult = spec
    if script is None:
        script = tm.smt_script(assertions, produce_models=False)
    fd, path = tempfile.mkstemp(suffix=".smt2", dir=workdir)
    with os.fdopen(fd, "w") as f:
        f.write(script)
    t0 = time.time()
    try:
        p = subprocess.run(cmd + [tflag % int(timeout_s * mult), path], capture_output=True, text=True,
                           timeout=timeout_s + 5)
        out = (p.stdout or "").strip()
        err = (p.stderr or "").strip()
    except subprocess.TimeoutExpired:
        out, err = "timeout", ""
    finally:
        try:
            os.unlink(path)
        except OSError:
            pass
    dt = time.time() - t0
    first = out.splitlines()[0].strip() if out else ""
    if first in ("unsat", "sat"):
        return Result(first, name, dt)
    return Result("unknown", name, dt, detail=(out + " " + err)[:300])


# z3 4.8.12 (the Debian package) answered `unsat` on a satisfiable problem with quantified hypotheses over sequences
# (found with seeded change C05-1: cvc5 exhibits a model of an equivalent restricted problem).  Its `unsat` is therefore
# NOT accepted on scripts that contain quantifiers unless another solver confirms it; on quantifier-free scripts and
# for `sat` answers it is used like the others.
DISTRUST_UNSAT_WITH_QUANTIFIERS = {"z3-4.8"}


def cli_race(script, timeout_s, workdir=None, wait_all=False):
    """Run all command-line solvers concurrently on one script; first definite answer wins
    (the others are killed) unless wait_all."""
    quantified = ("(forall " in script) or ("(exists " in script)
    fd, path = tempfile.mkstemp(suffix=".smt2", dir=workdir)
    with os.fdopen(fd, "w") as f:
        f.write(script)
    procs = {}
    t0 = time.time()
    for name, cmd, tflag, mult in CLI:
        try:
            procs[name] = subprocess.Popen(cmd + [tflag % int(timeout_s * mult), path], stdout=subprocess.PIPE,
                                           stderr=subprocess.PIPE, text=True)
        except OSError:
            pass
    results = {}
    deadline = t0 + timeout_s + 5
    try:
        while procs and time.time() < deadline:
            for name in list(procs):
                p = procs[name]
                if p.poll() is not None:
                    out, err = p.communicate()
                    first = out.strip().splitlines()[0].strip() if out.strip() else ""
                    dt = time.time() - t0
                    if first == "unsat" and quantified and name in DISTRUST_UNSAT_WITH_QUANTIFIERS:
                        results[name] = Result("unknown", name, dt, detail="unsat by %s alone on a quantified problem: not accepted "
                                                                              "(known unsoundness of that version)" % name)
                    elif first in ("sat", "unsat"):
                        results[name] = Result(first, name, dt)
                    else:
                        results[name] = Result("unknown", name, dt, detail=(out + " " + err).strip()[:300])
                    del procs[name]
            if not wait_all and any(r.verdict != "unknown" for r in results.values()):
                break
            if procs:
                time.sleep(0.01)
    finally:
        for name, p in procs.items():
            p.kill()
            p.communicate()
            results.setdefault(name, Result("unknown", name, time.time() - t0, detail="killed"))
        try:
            os.unlink(path)
        except OSError:
            pass
    return results


def check(assertions, quick_ms=3000, cli_timeout_s=20, all_solvers=False, want_model=True, seed=0,
          workdir=None):
    """Satisfiability of the conjunction of `assertions` with the portfolio."""
    r = z3_check(assertions, quick_ms, want_model=want_model, seed=seed)
    results = {r.solver: r}
    if r.verdict != "unknown" and not all_solvers:
        r.all = {k: (v.verdict, round(v.time, 3)) for k, v in results.items()}
        return r
    script = tm.smt_script(assertions, produce_models=False)
    results.update(cli_race(script, cli_timeout_s, workdir, wait_all=all_solvers))
    definite = {v.verdict for v in results.values() if v.verdict != "unknown"}
    if len(definite) > 1:
        raise SolverDisagreement({k: v.verdict for k, v in results.items()})
    summary = {k: (v.verdict, round(v.time, 3)) for k, v in results.items()}
    wall = results["z3py"].time + max([v.time for k, v in results.items() if k != "z3py"] or [0])
    if definite:
        verdict = definite.pop()
        win = sorted([v for v in results.values() if v.verdict == verdict], key=lambda v: v.time)[0]
        model = results["z3py"].model if verdict == "sat" else None
        if verdict == "sat" and model is None and want_model:
            r2 = z3_check(assertions, 20000, want_model=True, seed=seed + 1)
            model = r2.model if r2.verdict == "sat" else None
        return Result(verdict, win.solver, wall, model, all_=summary)
    return Result("unknown", "portfolio", wall,
                  detail="; ".join("%s: %s" % (k, v.detail) for k, v in results.items()), all_=summary)

"""Builtins, methods of builtin kinds and library-module models (the *library contract table*).

A call with no entry here makes the calling function unsupported (never silently skipped).
Externals specific to the verified code base (dongle.exchange, crypto, rlp, ...) are registered
by /verif/spec/*.py through `register_external`.
"""
import ast
import enum

from . import terms as tm
from .terms import T, INT, BOOL, STR, BYTES, J
from .values import (Sym, JVal, SymType, Obj, PyList, PyDict, ClassVal, FuncVal, BoundMethod, Builtin,
                     ModuleVal, Opaque, Raise, Unsupported, SymObjSeq, kind_of, to_term, as_value,
                     kind_sort, is_sym, GenExp, is_genexp)
from . import values as V
from . import lib as L
from .lib import mk_exc, narrow, JList, JDict, int_of, seq_kind, is_list_kind, pylist_items, opaque_str

EXTERNALS = {}          # dotted name -> impl(ip, st, args, kwargs) generator
EXTERNAL_VALUES = {}    # dotted name -> value (classes, constants)
METHODS = {}            # (kindname, method) -> impl(ip, st, recv, args, kwargs)
OPAQUE_METHODS = {}     # (opaque tag, method) -> impl(ip, st, recv, args, kwargs)
CLASS_HOOKS = {}        # class qualname -> impl(ip, st, cls, args, kwargs) or None


def register_external(name, impl=None):
    def deco(f):
        EXTERNALS[name] = f
        return f
    if impl is not None:
        EXTERNALS[name] = impl
        return impl
    return deco


def method(kind, name):
    def deco(f):
        METHODS[(kind, name)] = f
        return f
    return deco


def opaque_method(tag, name):
    def deco(f):
        OPAQUE_METHODS[(tag, name)] = f
        return f
    return deco


def ext_class(name, bases=(), pycls=None, is_exc=False, module="ext"):
    c = ClassVal(name.split(".")[-1], module, list(bases), {}, pycls=pycls, qualname=name)
    c.is_exc = is_exc
    EXTERNAL_VALUES[name] = c
    return c


NOOP_MODULES = {"logging", "time"}
LOGGER_METHODS = {"debug", "info", "warning", "error", "critical", "fatal", "exception", "log", "setLevel"}


class Lib:
    # re-export core operations
    binop = staticmethod(L.binop)
    compare = staticmethod(L.compare)
    compare_total = staticmethod(L.compare_total)
    index = staticmethod(L.index)
    slice = staticmethod(L.slice)
    setitem = staticmethod(L.setitem)
    to_str = staticmethod(L.to_str)
    concrete_items = staticmethod(lambda ip, st, it: concrete_items(ip, st, it))
    materialise = staticmethod(lambda ip, st, v: materialise(ip, st, v))
    str_concat = staticmethod(L.str_concat)

    @staticmethod
    def ite_value(c, a, b):
        return L.ite_value(c, a, b)

    # ---------------------------------------------------------------- names
    def builtin(self, ip, name):
        f = BUILTINS.get(name)
        if f is not None:
            return f
        return None

    def library_module(self, ip, modname):
        env = {}
        pref = modname + "."
        for k, f in EXTERNALS.items():
            if k.startswith(pref) and "." not in k[len(pref):]:
                env[k[len(pref):]] = Builtin(k, f)
        for k, v in EXTERNAL_VALUES.items():
            if k.startswith(pref) and "." not in k[len(pref):]:
                env[k[len(pref):]] = v
        return ModuleVal(modname, env, None)

    def library_attr(self, ip, modname, name):
        full = modname + "." + name
        if full in EXTERNALS:
            return Builtin(full, EXTERNALS[full])
        if full in EXTERNAL_VALUES:
            return EXTERNAL_VALUES[full]
        # submodule?
        pref = full + "."
        if any(k.startswith(pref) for k in list(EXTERNALS) + list(EXTERNAL_VALUES)):
            return self.library_module(ip, full)
        return Opaque("ext:" + full)

    def opaque_attr(self, ip, st, v, name):
        if v.tag == "logger" and name in LOGGER_METHODS:
            return Builtin("logger." + name, _noop)
        if (v.tag, name) in OPAQUE_METHODS:
            return L_bound(OPAQUE_METHODS[(v.tag, name)], v)
        if v.tag.startswith("ext:"):
            return self.library_attr(ip, v.tag[4:], name)
        raise Unsupported("attribute %s of opaque %s" % (name, v.tag))

    def call_opaque(self, ip, st, f, args, kwargs):
        raise Unsupported("call of external %s (no library contract)" % f.tag)

    def obj_attr(self, ip, st, v, name):
        # exception objects: .args ; BaseException default str
        return None

    def class_attr(self, ip, st, cls, name):
        if name == "__name__":
            return cls.name
        full = "%s.%s" % (cls.qualname, name)
        if full in EXTERNALS:               # class/static method of an external class with an assumed contract
            return Builtin(full, EXTERNALS[full])
        return None

    def class_setattr(self, ip, st, cls, name, v):
        raise Unsupported("assignment to class attribute %s.%s" % (cls.name, name))

    def instantiate(self, ip, st, cls, args, kwargs):
        h = CLASS_HOOKS.get(cls.qualname)
        if h is not None:
            return h(ip, st, cls, args, kwargs)
        return None

    # ---------------------------------------------------------------- enums
    def enum_lookup(self, ip, st, cls, v):
        """EnumClass(value): member with that value or ValueError."""
        members = list(cls.pycls)
        if isinstance(v, JVal):
            for st1, x in narrow(ip, st, v):
                if isinstance(x, (JList, JDict)):
                    yield st1, Raise(mk_exc(st1, "TypeError", "unhashable type"))
                elif x is None or isinstance(x, Opaque):
                    yield st1, Raise(mk_exc(st1, "ValueError", "not a valid member"))
                else:
                    yield from self.enum_lookup(ip, st1, cls, x)
            return
        if not is_sym(v):
            for m in members:
                if m.value == v and type(m.value) == type(v) or (isinstance(m.value, int) and isinstance(v, int) and m.value == v):
                    yield st, m
                    return
            yield st, Raise(mk_exc(st, "ValueError", "%r is not a valid %s" % (v, cls.name)))
            return
        seen = set()
        for m in members:
            if m.value in seen:
                continue
            seen.add(m.value)
            if kind_of(m.value) != kind_of(v) and not (kind_of(v) == "int" and isinstance(m.value, int)):
                continue
            c = tm.Eq(to_term(v), to_term(int(m.value) if isinstance(m.value, int) else m.value))
            if ip.feasible(st, c):
                s2 = st.fork()
                s2.assume(c)
                ip.count_path()
                yield s2, cls.pycls(m.value)
            st.assume(tm.Not(c))
        if ip.feasible(st):
            yield st, Raise(mk_exc(st, "ValueError", "not a valid %s" % cls.name))

    # ---------------------------------------------------------------- methods on builtin kinds
    def method(self, ip, st, recv, name, args, kwargs):
        if isinstance(recv, JVal):
            for st1, r in narrow(ip, st, recv):
                if r is None:
                    yield st1, Raise(mk_exc(st1, "AttributeError", "'NoneType' object has no attribute '%s'" % name))
                else:
                    yield from self.method(ip, st1, r, name, args, kwargs)
            return
        k = kind_of(recv)
        if isinstance(recv, JDict):
            k = "jdict"
        elif isinstance(recv, JList):
            k = "jlist"
        elif is_list_kind(k):
            k = "symlist"
        elif isinstance(recv, Builtin):
            k = "type:" + recv.name
        elif isinstance(recv, enum.IntEnum):
            k = "int"
            recv = int(recv)
        elif isinstance(recv, Opaque):
            k = "opaque:" + recv.tag
        elif hasattr(recv, "sym_method"):
            yield from recv.sym_method(ip, st, name, args, kwargs)
            return
        f = METHODS.get((k, name))
        if f is None and k in ("int", "str", "bytes", "tuple") and not is_sym(recv) and isinstance(recv, (int, str, bytes, tuple)) \
                and not isinstance(recv, bool) and hasattr(type(recv), name) \
                and all(not is_sym(a) and (a is None or isinstance(a, (int, str, bytes, bool))) for a in list(args) + list(kwargs.values())):
            # a method of an immutable builtin value on concrete arguments: CPython itself computes it
            try:
                r = getattr(recv, name)(*args, **kwargs)
            except Exception as e:      # noqa
                yield st, Raise(mk_exc(st, type(e).__name__, str(e)))
                return
            if isinstance(r, list):
                r = st.new_list(r)
            yield st, r
            return
        if f is None:
            if k in ("int", "bool", "str", "bytes", "pylist", "pydict", "tuple", "jdict", "jlist", "symlist", "none"):
                known = {m for (kk, m) in METHODS if kk == k}
                import builtins
                pytypes = {"int": int, "bool": bool, "str": str, "bytes": bytes, "pylist": list, "pydict": dict,
                           "tuple": tuple, "jdict": dict, "jlist": list, "symlist": list}
                if k in pytypes and not hasattr(pytypes[k], name):
                    yield st, Raise(mk_exc(st, "AttributeError", "'%s' object has no attribute '%s'" % (k, name)))
                    return
            if k == "opaque:float":
                if not hasattr(float, name):
                    yield st, Raise(mk_exc(st, "AttributeError", "'float' object has no attribute '%s'" % name))
                    return
            raise Unsupported("method %s.%s" % (k, name))
        V.audit_kwargs(f, "%s.%s" % (k, name), kwargs)
        yield from f(ip, st, recv, args, kwargs)

    # ---------------------------------------------------------------- comprehension / with
    def listcomp(self, ip, st, e):
        if len(e.generators) != 1 or e.generators[0].ifs:
            raise Unsupported("list comprehension shape")
        g = e.generators[0]
        for st1, it in ip.eval(g.iter, st):
            if isinstance(it, Raise):
                yield st1, it
                continue
            items = concrete_items(ip, st1, it)
            if items is None:
                if isinstance(it, Sym) and (is_list_kind(it.kind) or it.kind == "bytes") and isinstance(g.target, ast.Name):
                    yield from self.symbolic_listcomp(ip, st1, e, g, it)
                    continue
                raise Unsupported("list comprehension over symbolic sequence")
            cur = [(st1, [])]
            for x in items:
                nxt = []
                for s2, acc in cur:
                    if isinstance(acc, Raise):
                        nxt.append((s2, acc))
                        continue
                    for s3, o in ip.assign(s2, g.target, x):
                        for s4, v in ip.eval(e.elt, s3):
                            nxt.append((s4, v if isinstance(v, Raise) else acc + [v]))
                cur = nxt
            for s2, acc in cur:
                yield s2, (acc if isinstance(acc, Raise) else s2.new_list(acc))

    def reverse(self, ip, st, v):
        """x[::-1]"""
        if not is_sym(v):
            items = concrete_items(ip, st, v)
            if isinstance(v, (bytes, str, tuple)):
                yield st, v[::-1]
            elif items is not None:
                yield st, st.new_list(list(reversed(items)))
            else:
                raise Unsupported("reverse of %r" % (v,))
            return
        if not (v.kind in ("bytes", "str") or is_list_kind(v.kind)):
            raise Unsupported("reverse of a symbolic %r" % (v.kind,))
        if v.kind == "str":
            raise Unsupported("reverse of a symbolic str")
        r = Sym(v.kind, tm.Fresh("reversed", kind_sort(v.kind)))
        n = tm.Len(v.term)
        st.assume(tm.Eq(tm.Len(r.term), n), axiom=True)
        k = tm.BoundVar(tm.fresh_name("rv"), INT)
        st.assume(tm.ForAll([k], tm.Implies(tm.And(tm.Le(tm.Int(0), k), tm.Lt(k, n)),
                                           tm.Eq(tm.Nth(r.term, k), tm.Nth(v.term, tm.Sub(tm.Sub(n, tm.Int(1)), k))))), axiom=True)
        yield st, r

    def symbolic_listcomp(self, ip, st, e, g, seq):
        """[elt for x in seq] over a symbolic list / byte string: the element expression is evaluated once on an arbitrary
        element seq[k]; it must take a single path and yield a scalar, then the result r has len(r) == len(seq) and
        r[k] == elt(seq[k]) for every k"""
        k = tm.BoundVar(tm.fresh_name("lc"), INT)
        probe = st.fork()
        probe.in_quantifier = True
        elem = L.elem_value(seq.kind, tm.Nth(seq.term, k))
        outs = []
        for s3, o in ip.assign(probe, g.target, elem):
            outs.extend(ip.eval(e.elt, s3))
        if len(outs) != 1 or isinstance(outs[0][1], Raise) or kind_of(outs[0][1]) not in ("int", "bool", "str", "bytes"):
            raise Unsupported("list comprehension over a symbolic sequence whose element expression forks, raises or is not a scalar")
        v = outs[0][1]
        kk = kind_of(v)
        r = Sym(("list", kk), tm.Fresh("listcomp", kind_sort(("list", kk))))
        st.assume(tm.Eq(tm.Len(r.term), tm.Len(seq.term)), axiom=True)
        rng = tm.And(tm.Le(tm.Int(0), k), tm.Lt(k, tm.Len(seq.term)))
        st.assume(tm.ForAll([k], tm.Implies(rng, tm.Eq(tm.Nth(r.term, k), to_term(v)))), axiom=True)
        yield st, r

    def with_stmt(self, ip, st, s):
        if len(s.items) != 1:
            raise Unsupported("with: several items")
        item = s.items[0]
        out = []
        for st1, cm in ip.eval(item.context_expr, st):
            if isinstance(cm, Raise):
                out.append((st1, ("raise", cm.exc)))
                continue
            if not (isinstance(cm, Opaque) and cm.tag.startswith("file")):
                raise Unsupported("with on %r" % (cm,))
            if item.optional_vars is not None:
                st1.locals[item.optional_vars.id] = cm
            for st2, o in ip.exec_block(s.body, st1):
                h = EXTERNALS.get("file.__exit__")
                if h is not None:
                    for st3, r in h(ip, st2, [cm], {}):
                        out.append((st3, ("raise", r.exc) if isinstance(r, Raise) and o[0] != "raise" else o))
                else:
                    out.append((st2, o))
        return out

    def objseq_elem(self, ip, st, seq, idx):
        flds = {}
        for name, (kind, arr) in seq.fields.items():
            flds[name] = L.elem_value(("list", kind), tm.Select(arr, idx)) if kind != "bytes" else as_value("bytes", tm.Select(arr, idx))
        o = st.new_obj(seq.cls, flds)
        for name, (kind, arr) in seq.fields.items():
            inv = getattr(seq, "elem_facts", None)
        if getattr(seq, "elem_fact", None) is not None:
            st.assume(seq.elem_fact(idx))
        return o


def L_bound(f, recv):
    def impl(ip, st, args, kwargs):
        return f(ip, st, recv, args, kwargs)
    return Builtin("bound", impl)


def _noop(ip, st, args, kwargs):
    # logging: arguments were evaluated by the caller; a literal %-format with a wrong arity is
    # swallowed by the logging module (it prints a traceback to stderr, never raises)
    yield st, None


def concrete_items(ip, st, it):
    """Items of an iterable with a concrete spine, else None."""
    if is_genexp(it):
        return None
    if isinstance(it, (PyList, tuple)):
        return pylist_items(st, it)
    if isinstance(it, PyDict):
        return list(st.cell(it.oid).keys())
    if isinstance(it, (str, bytes)):
        return list(it)
    if isinstance(it, range):
        return list(it)
    if is_genexp(it):
        return None
    if isinstance(it, ConcreteIter):
        return it.items
    if isinstance(it, Sym) and it.kind != "str":
        lit = tm.seq_literal_elems(it.term)
        if lit is not None:
            return [L.elem_value(it.kind, e) for e in lit]
    return None


class ConcreteIter:
    def __init__(self, items):
        self.items = items

    def __deepcopy__(self, memo):
        return self


class LazyMap:
    """map(f, xs) over a symbolic sequence, consumed by list()/sorted()/loops through contracts."""

    def __init__(self, func, seq):
        self.func, self.seq = func, seq

    def __deepcopy__(self, memo):
        return self


# ====================================================================== builtins
BUILTINS = {}


def builtin(name):
    def deco(f):
        BUILTINS[name] = Builtin(name, f)
        return f
    return deco


@builtin("len")
def _len(ip, st, args, kwargs):
    (v,) = args
    if hasattr(v, "sym_len"):
        yield from v.sym_len(ip, st)
        return
    if isinstance(v, JVal):
        if ip.spec:
            raise Unsupported("spec: len of raw JSON")
        for st1, c in narrow(ip, st, v):
            if isinstance(c, JList):
                yield st1, Sym("int", V.j_llen(c.term))
            elif isinstance(c, JDict):
                if c.oid is not None and st1.cell(c.oid):
                    extra = [k for k in st1.cell(c.oid)]
                    # overlay keys were present before (only replaced), length unchanged if all present
                    if not all(ip.must(st1, V.j_dhas(c.term, tm.Str(k))) for k in extra):
                        raise Unsupported("len of JSON dict with new overlay keys")
                yield st1, Sym("int", V.j_dlen(c.term))
            elif seq_kind(c):
                yield st1, as_value("int", L.len_term(st1, c))
            else:
                yield st1, Raise(mk_exc(st1, "TypeError", "object has no len()"))
        return
    if isinstance(v, JList):
        yield st, Sym("int", V.j_llen(v.term))
        return
    if isinstance(v, JDict):
        yield st, Sym("int", V.j_dlen(v.term))
        return
    if v is None or kind_of(v) in ("int", "bool") or isinstance(v, (Obj, Opaque)):
        if ip.spec:
            raise Unsupported("spec: len of %r" % (v,))
        yield st, Raise(mk_exc(st, "TypeError", "object has no len()"))
        return
    t = L.len_term(st, v)
    if is_sym(v):
        st.assume(tm.Le(tm.Int(0), t), axiom=True)
    yield st, as_value("int", t)


@builtin("type")
def _type(ip, st, args, kwargs):
    (v,) = args
    if isinstance(v, JVal):
        yield st, SymType(v.term)
        return
    if isinstance(v, Obj):
        yield st, v.cls
        return
    if isinstance(v, Opaque):
        yield st, Opaque("type-of:" + v.tag)       # some type that equals none of the builtin type objects
        return
    k = kind_of(v)
    if isinstance(v, enum.Enum):
        raise Unsupported("type() of enum member")
    names = {"int": "int", "bool": "bool", "str": "str", "bytes": "bytes", "pylist": "list", "pydict": "dict",
             "tuple": "tuple", "none": "NoneType", "float": "float"}
    if is_list_kind(k):
        k = "pylist"
    if isinstance(v, (JList,)):
        k = "pylist"
    if isinstance(v, JDict):
        k = "pydict"
    if k in names:
        yield st, TYPE_OBJS[names[k]]
        return
    raise Unsupported("type(%r)" % (v,))


GENEXP_CONSUMERS = ("tuple", "list", "bytes", "sorted", "max", "min", "enumerate", "zip", "reversed", "dict", "set", "sum")


def with_materialised_args(f):
    """builtins that consume their iterable argument at once: a generator expression argument is first turned into the
    list of the equivalent list comprehension (same evaluation order, same exceptions)"""
    def g(ip, st, args, kwargs):
        if not any(is_genexp(a) for a in args):
            yield from f(ip, st, args, kwargs)
            return
        cur = [(st, [])]
        for a in args:
            nxt = []
            for s1, acc in cur:
                if isinstance(acc, Raise):
                    nxt.append((s1, acc))
                elif is_genexp(a):
                    for s2, lst in materialise(ip, s1, a):
                        nxt.append((s2, lst if isinstance(lst, Raise) else acc + [lst]))
                else:
                    nxt.append((s1, acc + [a]))
            cur = nxt
        for s1, acc in cur:
            if isinstance(acc, Raise):
                yield s1, acc
            else:
                yield from f(ip, s1, acc, kwargs)
    g.__wrapped__ = f
    return g


def _mk_type(name):
    def ctor(ip, st, args, kwargs):
        if name not in TYPE_CTORS:
            raise Unsupported("%s(...) is not modelled" % name)
        f = TYPE_CTORS[name]
        V.audit_kwargs(f, name, kwargs)
        if name in GENEXP_CONSUMERS:
            f = with_materialised_args(f)
        return f(ip, st, args, kwargs)
    b = Builtin(name, ctor)
    return b


TYPE_CTORS = {}
TYPE_OBJS = {}
for _n in ("int", "bool", "str", "bytes", "list", "dict", "tuple", "NoneType", "float", "bytearray", "object",
           "set", "slice"):
    TYPE_OBJS[_n] = _mk_type(_n)
    if _n != "NoneType":
        BUILTINS[_n] = TYPE_OBJS[_n]


def type_ctor(name):
    def deco(f):
        TYPE_CTORS[name] = f
        return f
    return deco


@type_ctor("bytes")
def _bytes(ip, st, args, kwargs):
    if not args:
        yield st, b""
        return
    (v,) = args
    if isinstance(v, (bytes, bytearray)):
        yield st, bytes(v)
        return
    if isinstance(v, int) and not isinstance(v, bool):
        if v < 0:
            yield st, Raise(mk_exc(st, "ValueError", "negative count"))
        else:
            yield st, bytes(v)          # bytes(n): n zero bytes
        return
    if isinstance(v, Sym) and v.kind == "bytes":
        yield st, v
        return
    if isinstance(v, JVal):
        raise Unsupported("bytes(JSON)")
    items = pylist_items(st, v)
    if items is not None:
        items = [int_of(x) for x in items]
        if ip.spec:
            yield st, as_value("bytes", tm.SeqLit([to_term(x) for x in items], INT))
            return
        cur = st
        # each element must be an int in range(256): TypeError / ValueError otherwise
        for x in items:
            if kind_of(x) not in ("int", "bool"):
                if isinstance(x, JVal):
                    raise Unsupported("bytes([JSON])")
                yield cur, Raise(mk_exc(cur, "TypeError", "cannot be interpreted as an integer"))
                return
        conds = []
        for x in items:
            if is_sym(x):
                conds.append(tm.And(tm.Le(tm.Int(0), x.term), tm.Le(x.term, tm.Int(255))))
            elif not 0 <= x <= 255:
                yield cur, Raise(mk_exc(cur, "ValueError", "bytes must be in range(0, 256)"))
                return
        ok = tm.And(*conds) if conds else tm.TRUE
        for st1, b in ip.branch(cur, Sym("bool", ok)):
            if b:
                yield st1, as_value("bytes", tm.SeqLit([to_term(x) for x in items], INT))
            else:
                yield st1, Raise(mk_exc(st1, "ValueError", "bytes must be in range(0, 256)"))
        return
    if is_genexp(v):
        raise Unsupported("bytes(genexp)")
    if isinstance(v, Sym) and v.kind == ("list", "int"):
        yield st, Sym("bytes", v.term)    # caller guarantees ranges (only used in spec mode)
        return
    raise Unsupported("bytes(%r)" % (v,))


@type_ctor("bytearray")
def _bytearray(ip, st, args, kwargs):
    yield from _bytes(ip, st, args, kwargs)


@type_ctor("str")
def _str(ip, st, args, kwargs):
    if not args:
        yield st, ""
        return
    v = args[0]
    if isinstance(v, Obj):
        sm, owner = v.cls.lookup("__str__")
        if sm is not None:
            yield from ip.call(st, sm, [v], {})
            return
        if L_is_exc(v):
            a = st.fields(v).get("args", ())
            if len(a) == 1 and kind_of(a[0]) == "str":
                yield st, a[0]
                return
            if len(a) == 1 and isinstance(a[0], Obj):
                yield from _str(ip, st, [a[0]], {})
                return
            if len(a) == 0:
                yield st, ""
                return
        yield st, opaque_str("objstr")
        return
    if isinstance(v, JVal):
        for st1, x in narrow(ip, st, v):
            yield st1, (L.to_str(ip, st1, x) if not isinstance(x, (JList, JDict, Opaque)) and x is not None else opaque_str("jstr"))
        return
    yield st, L.to_str(ip, st, v)


def L_is_exc(o):
    from .interp import is_exc_class
    return is_exc_class(o.cls)


@type_ctor("int")
def _int(ip, st, args, kwargs):
    if not args:
        yield st, 0
        return
    v = args[0]
    base = args[1] if len(args) > 1 else kwargs.get("base", 10)
    if isinstance(v, JVal):
        for st1, x in narrow(ip, st, v):
            if isinstance(x, (JList, JDict)) or x is None:
                yield st1, Raise(mk_exc(st1, "TypeError", "int() argument must be a string or a number"))
            elif isinstance(x, Opaque):
                yield st1, Sym("int", tm.Fresh("int_of_float", INT))
            else:
                yield from _int(ip, st1, [x] + list(args[1:]), kwargs)
        return
    k = kind_of(v)
    if k in ("int", "bool"):
        yield st, (int_of(v) if not is_sym(v) else (v if k == "int" else Sym("int", tm.Ite(v.term, tm.Int(1), tm.Int(0)))))
        return
    if k == "str":
        if not is_sym(v) and not is_sym(base):
            try:
                yield st, int(v, base)
            except ValueError as e:
                yield st, Raise(mk_exc(st, "ValueError", str(e)))
            return
        h = EXTERNALS.get("builtins.int_of_str")
        if h is None:
            raise Unsupported("int(symbolic str)")
        yield from h(ip, st, [v, base], {})
        return
    raise Unsupported("int(%s)" % k)


@type_ctor("bool")
def _bool(ip, st, args, kwargs):
    if not args:
        yield st, False
        return
    t = ip.truth(st, args[0])
    yield st, (t if isinstance(t, bool) else as_value("bool", t.term))


@type_ctor("list")
def _list(ip, st, args, kwargs):
    if not args:
        yield st, st.new_list([])
        return
    (v,) = args
    if isinstance(v, LazyMap):
        yield from list_of_map(ip, st, v)
        return
    if is_genexp(v):
        yield from materialise(ip, st, v)
        return
    items = concrete_items(ip, st, v)
    if items is not None:
        yield st, st.new_list(items)
        return
    if isinstance(v, Sym) and is_list_kind(v.kind):
        yield st, v
        return
    if isinstance(v, SymObjSeq):
        yield st, v
        return
    if isinstance(v, Opaque) and "ops" in v.attrs and v.tag == "cscript":
        yield st, v.attrs["ops"]          # A-BTCLIB: iterating a script yields its operations
        return
    raise Unsupported("list(%r)" % (v,))


MAP_HOOKS = {}      # function qualname -> hook(ip, st, lazymap) for maps with a known elementwise model


def list_of_map(ip, st, lm):
    """list(map(f, xs)) over a symbolic sequence: f is run once on an arbitrary element xs[i]
    (fresh i in range).  Paths on which f raises become raise paths ("for some i").  The result is
    a fresh list of the same length whose elements are related to xs elementwise when f's result is
    a term over xs[i] (quantified fact); otherwise only the length is known."""
    from . import verify as VF
    f, xs = lm.func, lm.seq
    name = getattr(f, "qualname", getattr(f, "name", ""))
    if name in MAP_HOOKS:
        yield from MAP_HOOKS[name](ip, st, lm)
        return
    if isinstance(xs, JVal):
        done = False
        for st1, lst in narrow(ip, st, xs):
            if isinstance(lst, JList):
                yield from list_of_map(ip, st1, LazyMap(f, lst))
            elif lst is None or kind_of(lst) in ("int", "bool") or isinstance(lst, Opaque):
                yield st1, Raise(mk_exc(st1, "TypeError", "object is not iterable"))
            else:
                raise Unsupported("map over a JSON %r" % (lst,))
        return
    if isinstance(xs, JList):
        n = V.j_llen(xs.term)
        def el(i): return JVal(V.j_lget(xs.term, i))
    elif isinstance(xs, Sym) and (is_list_kind(xs.kind) or xs.kind == "bytes"):
        n = tm.Len(xs.term)
        def el(i): return L.elem_value(xs.kind, tm.Nth(xs.term, i))
    else:
        raise Unsupported("list(map(f, %r))" % (xs,))
    i = tm.Fresh("map.i", INT)
    probe = st.fork()
    probe.assume(tm.And(tm.Le(tm.Int(0), i), tm.Lt(i, n)))
    normal = []
    for s1, r in ip.call(probe.fork(), f, [el(i)], {}):
        if isinstance(r, Raise):
            s2 = st.fork()
            for c in s1.pc:
                s2.assume(c)
            if ip.feasible(s2):
                ip.count_path()
                if r.exc.oid in s1.heap:
                    s2.heap[r.exc.oid] = dict(s1.heap[r.exc.oid])
                yield s2, r
        else:
            normal.append((s1, r))
    if not normal:
        if ip.feasible(st, tm.Eq(n, tm.Int(0))):
            st.assume(tm.Eq(n, tm.Int(0)))
            yield st, st.new_list([])
        return
    if all(type(r).__name__ == "SortedView" for _, r in normal):
        from spec.sorting import map_of_sorted
        yield st, map_of_sorted(ip, st, lm, normal, n, probe, i)
        return
    kinds = {kind_of(r) for _, r in normal}
    if len(kinds) != 1 or list(kinds)[0] not in ("int", "str", "bytes", "bool"):
        raise Unsupported("list(map(...)) with results of kinds %s" % kinds)
    k = kinds.pop()
    res = Sym(("list", k), tm.Fresh("mapped", kind_sort(("list", k))))
    st.assume(tm.Eq(tm.T("seq.len", (res.term,), INT), n))
    tm.LEN_ALIAS[res.term] = n          # the new list has, by construction, the length of the mapped one
    if len(normal) == 1:
        s1, r = normal[0]
        extra = [c for c in s1.pc if c not in probe.facts]
        if not extra:
            bv = tm.BoundVar(tm.fresh_name("mi"), INT)
            rt = tm.substitute(to_term(r), {i: bv})
            fresh_in = [t for t in tm.subterms(rt) if t.op == "const" and "!" in t.val and t is not bv]
            before = set()
            for c in st.pc:
                before |= {t for t in tm.subterms(c) if t.op == "const"}
            before |= {t for t in tm.subterms(xs.term) if t.op == "const"}
            if all(t in before for t in fresh_in):
                st.assume(tm.ForAll([bv], tm.Implies(tm.And(tm.Le(tm.Int(0), bv), tm.Lt(bv, n)),
                                                    tm.Eq(tm.Nth(res.term, bv), rt))))
    yield st, res


@type_ctor("tuple")
def _tuple(ip, st, args, kwargs):
    if not args:
        yield st, ()
        return
    items = concrete_items(ip, st, args[0])
    if items is None:
        raise Unsupported("tuple(symbolic)")
    yield st, tuple(items)


@type_ctor("dict")
def _dict(ip, st, args, kwargs):
    if args:
        raise Unsupported("dict(args)")
    yield st, st.new_dict(dict(kwargs))


@builtin("isinstance")
def _isinstance(ip, st, args, kwargs):
    v, c = args
    if isinstance(c, tuple):
        for cc in c:
            r = list(_isinstance(ip, st, [v, cc], {}))
            if len(r) != 1 or is_sym(r[0][1]):
                raise Unsupported("isinstance with tuple on symbolic")
            if r[0][1]:
                yield st, True
                return
        yield st, False
        return
    if isinstance(v, Obj):
        if isinstance(c, ClassVal):
            yield st, v.cls.is_subclass(c)
        else:
            yield st, False
        return
    if isinstance(c, ClassVal):
        yield st, False
        return
    if isinstance(c, Builtin):
        if isinstance(v, JVal):
            tagmap = {"dict": [V.TAG_DICT], "list": [V.TAG_LIST], "str": [V.TAG_STR], "int": [V.TAG_INT, V.TAG_BOOL],
                      "bool": [V.TAG_BOOL], "float": [V.TAG_FLOAT]}
            if c.name in tagmap:
                yield st, as_value("bool", tm.Or(*[tm.Eq(V.j_tag(v.term), tm.Int(k)) for k in tagmap[c.name]]))
                return
            raise Unsupported("isinstance(JSON, %s)" % c.name)
        k = kind_of(v)
        if is_list_kind(k) or isinstance(v, JList):
            k = "pylist"
        if isinstance(v, JDict):
            k = "pydict"
        table = {"int": {"int", "bool"}, "bool": {"bool"}, "str": {"str"}, "bytes": {"bytes"}, "list": {"pylist"},
                 "dict": {"pydict"}, "tuple": {"tuple"}, "float": {"float"}, "bytearray": set(), "object": None}
        if c.name in table:
            yield st, (True if table[c.name] is None else k in table[c.name])
            return
    raise Unsupported("isinstance(%r, %r)" % (v, c))


@builtin("hex")
def _hex(ip, st, args, kwargs):
    (v,) = args
    v = int_of(v)
    if isinstance(v, JVal):
        for st1, x in narrow(ip, st, v):
            if kind_of(x) in ("int", "bool"):
                yield st1, opaque_str("hex")
            else:
                yield st1, Raise(mk_exc(st1, "TypeError", "object cannot be interpreted as an integer"))
        return
    if kind_of(v) not in ("int", "bool"):
        yield st, Raise(mk_exc(st, "TypeError", "object cannot be interpreted as an integer"))
        return
    yield st, (hex(v) if not is_sym(v) else opaque_str("hex"))


@builtin("format")
def _format(ip, st, args, kwargs):
    v = args[0]
    if isinstance(v, Obj) and len(args) == 1:
        yield from _str(ip, st, [v], {})
        return
    yield st, (L.to_str(ip, st, v) if len(args) == 1 else opaque_str("format"))


@builtin("repr")
def _repr(ip, st, args, kwargs):
    yield st, opaque_str("repr")


@builtin("print")
def _print(ip, st, args, kwargs):
    h = EXTERNALS.get("builtins.print")
    if h is not None:
        yield from h(ip, st, args, kwargs)
    else:
        yield st, None


@builtin("range")
def _range(ip, st, args, kwargs):
    args = [int_of(a) for a in args]
    if all(not is_sym(a) for a in args):
        yield st, ConcreteIter(list(range(*args)))
        return
    from .interp import SymRange
    if len(args) == 1:
        yield st, SymRange(0, args[0])
    elif len(args) == 2:
        yield st, SymRange(args[0], args[1])
    else:
        raise Unsupported("range with step")


@builtin("enumerate")
def _enumerate(ip, st, args, kwargs):
    from .interp import SymEnumerate
    start = args[1] if len(args) > 1 else kwargs.get("start", 0)
    items = concrete_items(ip, st, args[0])
    if items is not None and not is_sym(start):
        yield st, ConcreteIter([(start + k, x) for k, x in enumerate(items)])
        return
    yield st, SymEnumerate(args[0], start)


@builtin("zip")
def _zip(ip, st, args, kwargs):
    lists = [concrete_items(ip, st, a) for a in args]
    if any(x is None for x in lists):
        raise Unsupported("zip over symbolic")
    yield st, ConcreteIter(list(zip(*lists)))


@builtin("map")
def _map(ip, st, args, kwargs):
    f, xs = args
    items = concrete_items(ip, st, xs)
    if items is None:
        yield st, LazyMap(f, xs)
        return
    cur = [(st, [])]
    for x in items:
        nxt = []
        for s1, acc in cur:
            if isinstance(acc, Raise):
                nxt.append((s1, acc))
                continue
            for s2, r in ip.call(s1, f, [x], {}):
                nxt.append((s2, r if isinstance(r, Raise) else acc + [r]))
        cur = nxt
    for s1, acc in cur:
        yield s1, (acc if isinstance(acc, Raise) else ConcreteIter(acc))


@builtin("reversed")
def _reversed(ip, st, args, kwargs):
    """reversed(seq) over a sequence with a concrete spine (consumed by a for loop / list / tuple)"""
    (v,) = args
    if isinstance(v, (PyDict,)) or (is_genexp(v)):
        raise Unsupported("reversed of %s" % type(v).__name__)
    items = concrete_items(ip, st, v)
    if items is None:
        raise Unsupported("reversed of a symbolic sequence")
    yield st, ConcreteIter(list(reversed(items)))


@builtin("sorted")
def _sorted(ip, st, args, kwargs):
    h = EXTERNALS.get("builtins.sorted")
    items = concrete_items(ip, st, args[0])
    if items is not None and len(items) <= 1 and "key" not in kwargs:
        yield st, st.new_list(items)
        return
    if items is not None and all(not is_sym(x) for x in items) and "key" not in kwargs:
        yield st, st.new_list(sorted(items))
        return
    if h is None:
        raise Unsupported("sorted(symbolic)")
    yield from h(ip, st, args, kwargs)


def _quant(ip, st, args, is_all):
    """all(...) / any(...)"""
    (v,) = args
    if is_genexp(v):
        yield from quant_genexp(ip, st, v[1], is_all)
        return
    items = concrete_items(ip, st, v)
    if items is None:
        if isinstance(v, LazyMap):
            yield from quant_map(ip, st, v, is_all)
            return
        if isinstance(v, Sym) and (v.kind == "bytes" or v.kind == ("list", "int") or v.kind == ("list", "bool")):
            # truthiness of each element of a symbolic byte string / list of ints: element != 0
            k = tm.BoundVar(tm.fresh_name("qk"), INT)
            e = tm.Nth(v.term, k)
            elem = e if v.kind == ("list", "bool") else tm.Not(tm.Eq(e, tm.Int(0)))
            rng = tm.And(tm.Le(tm.Int(0), k), tm.Lt(k, tm.Len(v.term)))
            r = tm.ForAll([k], tm.Implies(rng, elem)) if is_all else tm.Exists([k], tm.And(rng, elem))
            yield st, as_value("bool", r)
            return
        raise Unsupported("all/any over %r" % (v,))
    ts = []
    for x in items:
        t = ip.truth(st, x)
        ts.append(tm.Bool(t) if isinstance(t, bool) else t.term)
    r = tm.And(*ts) if is_all else tm.Or(*ts)
    yield st, as_value("bool", r)


@builtin("abs")
def _abs(ip, st, args, kwargs):
    (a,) = args
    if kind_of(a) not in ("int", "bool"):
        raise Unsupported("abs of a non-integer")
    if not is_sym(a):
        yield st, abs(int_of(a))
        return
    t = to_term(int_of(a))
    yield st, as_value("int", tm.Ite(tm.Lt(t, tm.Int(0)), tm.Sub(tm.Int(0), t), t))


@builtin("divmod")
def _divmod(ip, st, args, kwargs):
    a, b = args
    if kind_of(a) not in ("int", "bool") or kind_of(b) not in ("int", "bool"):
        raise Unsupported("divmod of non-integers")
    if not is_sym(a) and not is_sym(b):
        if b == 0:
            yield st, Raise(mk_exc(st, "ZeroDivisionError", "integer division or modulo by zero"))
        else:
            yield st, divmod(int_of(a), int_of(b))
        return
    for s1, q in L.binop(ip, st, ast.FloorDiv(), a, b):
        if isinstance(q, Raise):
            yield s1, q
            continue
        for s2, r in L.binop(ip, s1, ast.Mod(), a, b):
            yield s2, (r if isinstance(r, Raise) else (q, r))


@builtin("all")
def _all(ip, st, args, kwargs):
    yield from _quant(ip, st, args, True)


@builtin("any")
def _any(ip, st, args, kwargs):
    yield from _quant(ip, st, args, False)


def quant_map(ip, st, lm, is_all):
    """all(map(f, xs)) / any(map(f, xs)) over a symbolic sequence: f evaluated once on xs[i], i bound."""
    xs = lm.seq
    if not (isinstance(xs, Sym) and (is_list_kind(xs.kind) or xs.kind == "bytes")):
        raise Unsupported("all/any(map(f, %r))" % (xs,))
    i = tm.BoundVar(tm.fresh_name("i"), INT)
    n = tm.Len(xs.term)
    guard = tm.And(tm.Le(tm.Int(0), i), tm.Lt(i, n))
    inner = st.fork()
    inner.in_quantifier = True
    inner.assume(guard)
    e = tm.Nth(xs.term, i)
    terms, raised = [], []
    for s1, v in ip.call(inner.fork(), lm.func, [L.elem_value(xs.kind, e)], {}):
        extra = tm.And(*[c for c in s1.pc if c not in inner.facts and c not in s1.axioms])
        if isinstance(v, Raise):
            raised.append((extra, v))
        else:
            t = ip.truth(s1, v)
            terms.append((extra, tm.Bool(t) if isinstance(t, bool) else t.term))
    body = tm.And(*[tm.Implies(c, t) for c, t in terms]) if is_all else tm.Or(*[tm.And(c, t) for c, t in terms])
    yield from _finish_quant(ip, st, body, raised, is_all, inner)


def quant_genexp(ip, st, e, is_all):
    """all/any over a generator expression.

    Concrete iterables are unrolled with short-circuit.  For symbolic sequences the body is
    evaluated once for a fresh index i (0 <= i < len): the result is a quantified formula; any
    path on which the body raises for some i becomes a raise path (over-approximation: the
    short-circuit refinement "all earlier elements passed" is not used)."""
    gens = e.generators
    if any(g.ifs for g in gens):
        raise Unsupported("genexp with if")
    yield from _quant_gen(ip, st, e, gens, 0, is_all, [], [])


def _quant_gen(ip, st, e, gens, k, is_all, bvars, guards):
    if k == len(gens):
        # evaluate body under bound variables (on a copy: `st` must keep exactly the binder's guard)
        results = list(ip.eval(e.elt, st.fork()))
        return_terms = []
        raised = []
        for s1, v in results:
            extra = [c for c in s1.pc if c not in st.facts and c not in s1.axioms]
            cond = tm.And(*extra)
            if isinstance(v, Raise):
                raised.append((cond, v))
            else:
                t = ip.truth(s1, v)
                return_terms.append((cond, tm.Bool(t) if isinstance(t, bool) else t.term))
        body = tm.And(*[tm.Implies(c, t) for c, t in return_terms]) if is_all else \
            tm.Or(*[tm.And(c, t) for c, t in return_terms])
        yield st, ("body", body, raised)
        return
    g = gens[k]
    for st1, it in ip.eval(g.iter, st):
        if isinstance(it, Raise):
            yield st1, it
            continue
        items = concrete_items(ip, st1, it)
        if items is not None and k == 0 and len(gens) == 1:
            # unroll with short circuit
            yield from _unrolled_quant(ip, st1, e, g, items, is_all)
            continue
        for st2, seq in narrow(ip, st1, it):
            if isinstance(seq, JDict) or (kind_of(seq) == "str"):
                raise Unsupported("genexp over dict/str JSON value")
            if not isinstance(seq, JList) and not (isinstance(seq, Sym) and (is_list_kind(seq.kind) or seq.kind == "bytes")):
                if seq is None or kind_of(seq) in ("int", "bool") or isinstance(seq, Opaque):
                    yield st2, Raise(mk_exc(st2, "TypeError", "object is not iterable"))
                    continue
                raise Unsupported("genexp over %r" % (seq,))
            i = tm.BoundVar(tm.fresh_name("i"), INT)
            if isinstance(seq, JList):
                n = V.j_llen(seq.term)
                elem = JVal(V.j_lget(seq.term, i))
            else:
                n = tm.Len(seq.term)
                elem = L.elem_value(seq.kind, tm.Nth(seq.term, i))
            guard = tm.And(tm.Le(tm.Int(0), i), tm.Lt(i, n))
            inner = st2.fork()
            inner.in_quantifier = True
            inner.assume(guard)
            list(ip.assign(inner, g.target, elem))
            for st3, r in _quant_gen(ip, inner, e, gens, k + 1, is_all, bvars + [i], guards + [guard]):
                if isinstance(r, Raise):
                    # iterating an inner element failed for some index
                    st4 = st2.fork()
                    extra = [c for c in st3.pc if c not in st2.facts]
                    st4.assume(tm.Exists(bvars + [i], tm.And(*extra)) if True else tm.TRUE)
                    if ip.feasible(st4):
                        yield st4, Raise(_reown_exc(st4, st3, r.exc))
                    continue
                _, body, raised = r
                if k == 0:
                    allb = bvars + [i] + r[3] if len(r) > 3 else bvars + [i]
                    yield from _finish_quant(ip, st2, body, raised, is_all, inner)
                else:
                    # propagate with this level's quantifier
                    q = tm.ForAll([i], tm.Implies(guard, body)) if is_all else tm.Exists([i], tm.And(guard, body))
                    raised2 = [(tm.Exists([i], tm.And(guard, c)), x) for c, x in raised]
                    yield st3, ("body", q, raised2)


def _reown_exc(dst, src, exc):
    if exc.oid in src.heap and exc.oid not in dst.heap:
        dst.heap[exc.oid] = dict(src.heap[exc.oid])
    return exc


def _finish_quant(ip, st, body, raised, is_all, inner):
    # st is the outer state (without index guards). inner holds the pc with the guard for bound var.
    extra = [c for c in inner.pc if c not in st.facts and c not in inner.axioms]
    guard = tm.And(*extra)
    bv = sorted(tm.free_bvars(tm.And(guard, body)), key=lambda t: t.val)
    q = tm.ForAll(bv, tm.Implies(guard, body)) if is_all else tm.Exists(bv, tm.And(guard, body))
    for cond, r in raised:
        c = tm.Exists(bv, tm.And(guard, cond))
        if ip.feasible(st, c):
            s2 = st.fork()
            s2.assume(c)
            ip.count_path()
            yield s2, Raise(_reown_exc(s2, inner, r.exc))
    res = Sym("bool", tm.Fresh("all" if is_all else "any", BOOL))
    st.assume(tm.Eq(res.term, q))
    yield st, res


def _unrolled_quant(ip, st, e, g, items, is_all):
    if not items:
        yield st, is_all
        return
    x = items[0]
    for s1, o in ip.assign(st, g.target, x):
        for s2, v in ip.eval(e.elt, s1):
            if isinstance(v, Raise):
                yield s2, v
                continue
            for s3, b in ip.branch(s2, ip.truth(s2, v)):
                if b != is_all:
                    yield s3, (not is_all)
                else:
                    yield from _unrolled_quant(ip, s3, e, g, items[1:], is_all)


@builtin("chr")
def _chr(ip, st, args, kwargs):
    (v,) = args
    v = int_of(v)
    if not is_sym(v):
        yield st, chr(v)
        return
    yield st, Sym("str", tm.T("str.from_code", (v.term,), STR))


@builtin("ord")
def _ord(ip, st, args, kwargs):
    (v,) = args
    if not is_sym(v):
        yield st, ord(v)
        return
    yield st, Sym("int", tm.T("str.to_code", (v.term,), INT))


@builtin("min")
def _min(ip, st, args, kwargs):
    if len(args) == 2 and all(kind_of(a) in ("int",) for a in args):
        yield st, as_value("int", tm.Min(to_term(int_of(args[0])), to_term(int_of(args[1]))))
        return
    raise Unsupported("min")


@builtin("max")
def _max(ip, st, args, kwargs):
    if len(args) == 1:
        items = concrete_items(ip, st, args[0])
        if items is not None and items and all(not is_sym(x) for x in items):
            yield st, max(items)
            return
        if items is not None and items and all(kind_of(x) == "int" for x in items):
            r = to_term(int_of(items[0]))
            for x in items[1:]:
                r = tm.Max(r, to_term(int_of(x)))
            yield st, as_value("int", r)
            return
        raise Unsupported("max over %r" % (args[0],))
    if len(args) == 2 and all(kind_of(a) in ("int",) for a in args):
        yield st, as_value("int", tm.Max(to_term(int_of(args[0])), to_term(int_of(args[1]))))
        return
    raise Unsupported("max")


@builtin("open")
def _open(ip, st, args, kwargs):
    h = EXTERNALS.get("builtins.open")
    if h is None:
        raise Unsupported("open() without file-system contract")
    yield from h(ip, st, args, kwargs)


@builtin("super")
def _super(ip, st, args, kwargs):
    fr = st.frames[-1]
    f = fr.func
    if f is None or f.cls is None:
        raise Unsupported("super() outside method")
    self_obj = fr.locals[f.node.args.args[0].arg]
    yield st, SuperProxy(f.cls, self_obj)


class SuperProxy:
    def __init__(self, cls, obj):
        self.cls, self.obj = cls, obj

    def __deepcopy__(self, memo):
        return self


BUILTINS["NotImplemented"] = Opaque("NotImplemented")
BUILTINS["True"] = True
BUILTINS["False"] = False
BUILTINS["None"] = None


# ====================================================================== methods
def _hex_of(v):
    if not is_sym(v):
        return bytes(v).hex()
    return Sym("str", V.hexs(v.term))


@method("bytes", "hex")
def _m_hex(ip, st, recv, args, kwargs):
    r = _hex_of(recv)
    if is_sym(r):
        st.assume(V.is_hex(r.term), axiom=True)
        st.assume(tm.Eq(tm.Len(r.term), tm.Mul(tm.Int(2), tm.Len(recv.term))), axiom=True)
        st.assume(tm.Eq(V.unhex(r.term), recv.term), axiom=True)
    yield st, r


def fromhex_value(ip, st, s):
    """bytes.fromhex(s) with the ValueError / TypeError paths."""
    if isinstance(s, JVal):
        for st1, x in narrow(ip, st, s):
            yield from fromhex_value(ip, st1, x)
        return
    if kind_of(s) != "str":
        if ip.spec:
            raise Unsupported("spec: fromhex of non-str")
        yield st, Raise(mk_exc(st, "TypeError", "fromhex() argument must be str"))
        return
    if not is_sym(s):
        try:
            yield st, bytes.fromhex(s)
        except ValueError as e:
            yield st, Raise(mk_exc(st, "ValueError", str(e)))
        return
    ok = V.is_hex(s.term)
    res = Sym("bytes", V.unhex(s.term))
    if ip.spec:
        yield st, res
        return
    for st1, b in ip.branch(st, Sym("bool", ok)):
        if b:
            st1.assume(tm.Le(tm.Mul(tm.Int(2), tm.Len(res.term)), tm.Len(s.term)), axiom=True)
            yield st1, res
        else:
            yield st1, Raise(mk_exc(st1, "ValueError", "non-hexadecimal number found in fromhex() arg"))


@method("type:bytes", "fromhex")
def _m_fromhex(ip, st, recv, args, kwargs):
    yield from fromhex_value(ip, st, args[0])


def to_bytes_term(x, n, order):
    parts = []
    for k in range(n):
        parts.append(tm.Mod(tm.Div(x, tm.Int(256 ** k)), tm.Int(256)))
    if order == "big":
        parts.reverse()
    return tm.SeqLit(parts, INT)


@method("int", "to_bytes")
def _m_to_bytes(ip, st, recv, args, kwargs):
    n = args[0] if args else kwargs.get("length", 1)
    order = args[1] if len(args) > 1 else kwargs.get("byteorder", "big")
    signed = kwargs.get("signed", False)
    n = int_of(n)
    if is_sym(n) or is_sym(order) or signed is not False:
        raise Unsupported("to_bytes with symbolic length/order or signed")
    if not is_sym(recv):
        try:
            yield st, int(recv).to_bytes(n, order, signed=False)
        except OverflowError as e:
            yield st, Raise(mk_exc(st, "OverflowError", str(e)))
        return
    x = recv.term
    ok = tm.And(tm.Le(tm.Int(0), x), tm.Lt(x, tm.Int(256 ** n)))
    if ip.spec:
        yield st, Sym("bytes", to_bytes_term(x, n, order))
        return
    for st1, b in ip.branch(st, Sym("bool", ok)):
        if b:
            yield st1, Sym("bytes", to_bytes_term(x, n, order))
        else:
            yield st1, Raise(mk_exc(st1, "OverflowError", "int too big to convert / can't convert negative int"))


METHODS[("bool", "to_bytes")] = _m_to_bytes

be_int = tm.FunDecl("be_int", [BYTES], INT)   # big-endian unsigned value of a byte string


@method("type:int", "from_bytes")
def _m_from_bytes(ip, st, recv, args, kwargs):
    b = args[0]
    order = args[1] if len(args) > 1 else kwargs.get("byteorder", "big")
    if kwargs.get("signed", False) is not False or order != "big":
        raise Unsupported("from_bytes variant")
    if not is_sym(b):
        yield st, int.from_bytes(b, "big")
        return
    r = be_int(b.term)
    st.assume(tm.Le(tm.Int(0), r))
    yield st, Sym("int", r)


@method("str", "capitalize")
def _m_capitalize(ip, st, recv, args, kwargs):
    yield st, (recv.capitalize() if not is_sym(recv) else opaque_str("cap"))


@method("str", "lower")
def _m_lower(ip, st, recv, args, kwargs):
    if not is_sym(recv):
        yield st, recv.lower()
        return
    h = EXTERNALS.get("str.lower")
    if h is None:
        yield st, opaque_str("lower")
    else:
        yield from h(ip, st, [recv], {})


@method("str", "upper")
def _m_upper(ip, st, recv, args, kwargs):
    yield st, (recv.upper() if not is_sym(recv) else opaque_str("upper"))


@method("str", "startswith")
def _m_startswith(ip, st, recv, args, kwargs):
    (p,) = args
    if kind_of(p) != "str":
        raise Unsupported("startswith non-str")
    if not is_sym(recv) and not is_sym(p):
        yield st, recv.startswith(p)
        return
    yield st, as_value("bool", tm.PrefixOf(to_term(p), to_term(recv)))


@method("str", "endswith")
def _m_endswith(ip, st, recv, args, kwargs):
    (p,) = args
    if not is_sym(recv) and not is_sym(p):
        yield st, recv.endswith(p)
        return
    yield st, as_value("bool", tm.SuffixOf(to_term(p), to_term(recv)))


def materialise(ip, st, v):
    """a generator expression consumed at once behaves like the list comprehension with the same clauses"""
    if is_genexp(v):
        node = v[1]
        lc = ast.ListComp(elt=node.elt, generators=node.generators)
        ast.copy_location(lc, node)
        yield from ip.lib.listcomp(ip, st, lc)
    else:
        yield st, v


@method("bytes", "join")
def _m_bjoin(ip, st, recv, args, kwargs):
    if is_genexp(args[0]):
        for st1, lst in materialise(ip, st, args[0]):
            if isinstance(lst, Raise):
                yield st1, lst
            else:
                yield from _m_bjoin(ip, st1, recv, [lst], kwargs)
        return
    items = concrete_items(ip, st, args[0])
    if items is None:
        raise Unsupported("bytes.join over a symbolic sequence")
    if any(kind_of(x) != "bytes" for x in items):
        yield st, Raise(mk_exc(st, "TypeError", "sequence item: expected a bytes-like object"))
        return
    if not is_sym(recv) and not any(is_sym(x) for x in items):
        yield st, recv.join(items)
        return
    parts = []
    for k, x in enumerate(items):
        if k and not (not is_sym(recv) and recv == b""):
            parts.append(to_term(recv))
        parts.append(to_term(x))
    yield st, as_value("bytes", tm.Concat(*parts) if parts else tm.BytesLit(b""))


@method("bytes", "startswith")
def _m_bstartswith(ip, st, recv, args, kwargs):
    (p,) = args
    if kind_of(p) != "bytes":
        yield st, Raise(mk_exc(st, "TypeError", "startswith first arg must be bytes or a tuple of bytes"))
        return
    if not is_sym(recv) and not is_sym(p):
        yield st, recv.startswith(p)
        return
    pt, rt = to_term(p), to_term(recv)
    n = tm.Len(pt)
    yield st, as_value("bool", tm.And(tm.Le(n, tm.Len(rt)), tm.Eq(tm.Extract(rt, tm.Int(0), n), pt)))


@method("bytes", "endswith")
def _m_bendswith(ip, st, recv, args, kwargs):
    (p,) = args
    if kind_of(p) != "bytes":
        yield st, Raise(mk_exc(st, "TypeError", "endswith first arg must be bytes or a tuple of bytes"))
        return
    if not is_sym(recv) and not is_sym(p):
        yield st, recv.endswith(p)
        return
    pt, rt = to_term(p), to_term(recv)
    n = tm.Len(pt)
    yield st, as_value("bool", tm.And(tm.Le(n, tm.Len(rt)), tm.Eq(tm.Extract(rt, tm.Sub(tm.Len(rt), n), n), pt)))


utf8 = tm.FunDecl("utf8", [STR], BYTES)


@method("str", "encode")
def _m_encode(ip, st, recv, args, kwargs):
    if not is_sym(recv):
        yield st, recv.encode(*[a for a in args])
        return
    # a string built from ASCII code points (chr(c), c < 128, and literals) encodes to those code points
    codes = ascii_codes(recv.term)
    if codes is not None and all(c.op == "int" or ip.must(st, tm.And(tm.Le(tm.Int(0), c), tm.Lt(c, tm.Int(128))))
                                 for c in codes):
        yield st, as_value("bytes", tm.SeqLit(codes, INT))
        return
    r = Sym("bytes", utf8(recv.term))
    st.assume(tm.Le(tm.Len(recv.term), tm.Len(r.term)))
    yield st, r


def ascii_codes(t):
    """code points of a string term made only of literals and str.from_code(c) pieces, else None"""
    parts = t.args if t.op == "str.++" else (t,)
    out = []
    for p in parts:
        if p.op == "str" and p.val.isascii():
            out.extend(tm.Int(ord(ch)) for ch in p.val)
        elif p.op == "str.from_code":
            out.append(p.args[0])
        else:
            return None
    return out


@method("bytes", "decode")
def _m_decode(ip, st, recv, args, kwargs):
    if not is_sym(recv):
        try:
            yield st, recv.decode(*args)
        except UnicodeDecodeError:
            yield st, Raise(mk_exc(st, "UnicodeDecodeError", "invalid"))
        return
    h = EXTERNALS.get("bytes.decode")
    if h is None:
        raise Unsupported("decode of symbolic bytes")
    yield from h(ip, st, [recv] + list(args), kwargs)


@method("bytes", "strip")
def _m_bstrip(ip, st, recv, args, kwargs):
    if not is_sym(recv):
        yield st, recv.strip()
        return
    h = EXTERNALS.get("bytes.strip")
    if h is None:
        raise Unsupported("strip of symbolic bytes")
    yield from h(ip, st, [recv], {})


@method("str", "strip")
def _m_sstrip(ip, st, recv, args, kwargs):
    if not is_sym(recv):
        yield st, recv.strip(*args)
        return
    h = EXTERNALS.get("str.strip")
    if h is None:
        raise Unsupported("strip of symbolic str")
    yield from h(ip, st, [recv] + list(args), {})


@method("str", "join")
def _m_join(ip, st, recv, args, kwargs):
    if is_genexp(args[0]) and not is_sym(recv):
        mats = list(materialise(ip, st, args[0]))
        if len(mats) == 1 and not isinstance(mats[0][1], Raise) and concrete_items(ip, mats[0][0], mats[0][1]) is not None:
            yield from _m_join(ip, mats[0][0], recv, [mats[0][1]], kwargs)
            return
    items = concrete_items(ip, st, args[0])
    if items is None:
        if isinstance(args[0], LazyMap) or is_sym(args[0]):
            yield st, opaque_str("join")
            return
        raise Unsupported("join over %r" % (args[0],))
    if any(kind_of(x) != "str" for x in items):
        yield st, Raise(mk_exc(st, "TypeError", "sequence item: expected str instance"))
        return
    out = []
    for k, x in enumerate(items):
        if k:
            out.append(recv)
        out.append(x)
    yield st, L.str_concat(ip, out)


@method("str", "split")
def _m_split(ip, st, recv, args, kwargs):
    if not is_sym(recv) and not any(is_sym(a) for a in args):
        yield st, st.new_list(recv.split(*args))
        return
    h = EXTERNALS.get("str.split")
    if h is None:
        raise Unsupported("split of symbolic str")
    yield from h(ip, st, [recv] + list(args), kwargs)


@method("str", "format")
def _m_format(ip, st, recv, args, kwargs):
    yield st, opaque_str("format")


@method("str", "replace")
def _m_replace(ip, st, recv, args, kwargs):
    if not is_sym(recv) and not any(is_sym(a) for a in args):
        yield st, recv.replace(*args)
        return
    yield st, Sym("str", tm.StrReplaceAll(to_term(recv), to_term(args[0]), to_term(args[1])))


def _char_class_method(pyname):
    """str.<pyname>() for a one-character string chr(c) with 0 <= c < 256: exact, by asking CPython about each of the
    256 code points (ranges of code points for which the predicate holds)"""
    def impl(ip, st, recv, args, kwargs):
        if not is_sym(recv):
            yield st, getattr(recv, pyname)()
            return
        t = recv.term
        if t.op == "str.from_code":
            c = t.args[0]
            ranges, start = [], None
            for k in range(257):
                on = k < 256 and getattr(chr(k), pyname)()
                if on and start is None:
                    start = k
                if not on and start is not None:
                    ranges.append((start, k - 1))
                    start = None
            wide = tm.FunDecl("unicode.%s" % pyname, [INT], BOOL)       # code points above Latin-1: uninterpreted
            yield st, as_value("bool", tm.Or(*([tm.And(tm.Le(tm.Int(a), c), tm.Le(c, tm.Int(b))) for a, b in ranges]
                                               + [tm.And(tm.Le(tm.Int(256), c), wide(c))])))
            return
        raise Unsupported("str.%s of a symbolic string that is not chr(byte)" % pyname)
    return impl


for _nm in ("isalnum", "isalpha", "isdigit", "isupper", "islower", "isspace", "isascii", "isprintable"):
    METHODS[("str", _nm)] = _char_class_method(_nm)


@method("str", "isdecimal")
def _m_isdecimal(ip, st, recv, args, kwargs):
    if not is_sym(recv):
        yield st, recv.isdecimal()
        return
    h = EXTERNALS.get("str.isdecimal")
    if h is None:
        raise Unsupported("isdecimal of symbolic")
    yield from h(ip, st, [recv], {})


@method("type:str", "isdecimal")
def _m_str_isdecimal(ip, st, recv, args, kwargs):
    v = args[0]
    if kind_of(v) != "str":
        yield st, Raise(mk_exc(st, "TypeError", "descriptor requires a 'str' object"))
        return
    yield from _m_isdecimal(ip, st, v, [], {})


def dict_get(ip, st, recv, args, kwargs):
    key = args[0]
    default = args[1] if len(args) > 1 else None
    if isinstance(recv, JDict):
        if recv.oid is not None and not is_sym(key) and key in st.cell(recv.oid):
            yield st, st.cell(recv.oid)[key]
            return
        if kind_of(key) != "str":
            raise Unsupported("JSON dict .get with non-str key")
        has = V.dhas(st, recv.term, to_term(key))
        for st1, b in ip.branch(st, Sym("bool", has)):
            yield st1, (JVal(V.j_dget(recv.term, to_term(key))) if b else default)
        return
    key = int_of(key) if isinstance(key, enum.IntEnum) else key
    d = st.cell(recv.oid)
    if isinstance(key, JVal):
        raise Unsupported("dict.get(JSON key)")
    if not is_sym(key):
        try:
            yield st, d.get(key, default)
        except TypeError:
            yield st, Raise(mk_exc(st, "TypeError", "unhashable type"))
        return
    # symbolic key over concrete keys: result is an ite chain when all values liftable to one kind
    vals = list(d.values()) + [default]
    ks = {kind_of(int_of(x) if isinstance(x, enum.IntEnum) else x) for x in vals}
    if ks <= {"int"}:
        r = to_term(int_of(default))
        seen = set()
        for k in reversed(list(d)):
            kk = int_of(k) if isinstance(k, enum.IntEnum) else k
            if kind_of(kk) != kind_of(key):
                continue
            r = tm.Ite(tm.Eq(to_term(key), to_term(kk)), to_term(int_of(d[k])), r)
        yield st, as_value("int", r)
        return
    for k in list(d):
        kk = int_of(k) if isinstance(k, enum.IntEnum) else k
        if kind_of(kk) != kind_of(key):
            continue
        c = tm.Eq(to_term(key), to_term(kk))
        if ip.feasible(st, c):
            s2 = st.fork()
            s2.assume(c)
            ip.count_path()
            yield s2, d[k]
        st.assume(tm.Not(c))
    if ip.feasible(st):
        yield st, default


METHODS[("pydict", "get")] = dict_get
METHODS[("jdict", "get")] = dict_get


@method("pydict", "items")
def _m_items(ip, st, recv, args, kwargs):
    yield st, ConcreteIter(list(st.cell(recv.oid).items()))


@method("pydict", "keys")
def _m_keys(ip, st, recv, args, kwargs):
    yield st, recv     # a keys view behaves like the dict for `in` and iteration


@method("pydict", "values")
def _m_values(ip, st, recv, args, kwargs):
    yield st, ConcreteIter(list(st.cell(recv.oid).values()))


@method("pylist", "append")
def _m_append(ip, st, recv, args, kwargs):
    st.cell(recv.oid, write=True).append(args[0])
    yield st, None


@method("pylist", "pop")
def _m_pop(ip, st, recv, args, kwargs):
    c = st.cell(recv.oid, write=True)
    if args:
        raise Unsupported("pop(i)")
    if not c:
        yield st, Raise(mk_exc(st, "IndexError", "pop from empty list"))
    else:
        yield st, c.pop()


@method("pylist", "index")
def _m_lindex(ip, st, recv, args, kwargs):
    c = st.cell(recv.oid)
    x = args[0]
    if is_sym(x) or any(is_sym(y) for y in c):
        raise Unsupported("list.index symbolic")
    if x in c:
        yield st, c.index(x)
    else:
        yield st, Raise(mk_exc(st, "ValueError", "not in list"))


@method("pylist", "extend")
def _m_extend(ip, st, recv, args, kwargs):
    items = concrete_items(ip, st, args[0])
    if items is None:
        raise Unsupported("list.extend(symbolic)")
    st.cell(recv.oid, write=True).extend(items)
    yield st, None


@method("pylist", "insert")
def _m_insert(ip, st, recv, args, kwargs):
    if is_sym(args[0]):
        raise Unsupported("list.insert at symbolic index")
    st.cell(recv.oid, write=True).insert(args[0], args[1])
    yield st, None


@method("pylist", "copy")
def _m_lcopy(ip, st, recv, args, kwargs):
    yield st, st.new_list(list(st.cell(recv.oid)))


@method("pylist", "reverse")
def _m_lreverse(ip, st, recv, args, kwargs):
    st.cell(recv.oid, write=True).reverse()
    yield st, None


@method("pydict", "copy")
def _m_dcopy(ip, st, recv, args, kwargs):
    yield st, st.new_dict(dict(st.cell(recv.oid)))


@method("pydict", "update")
def _m_dupdate(ip, st, recv, args, kwargs):
    c = st.cell(recv.oid, write=True)
    for a in args:
        if isinstance(a, PyDict):
            c.update(st.cell(a.oid))
        else:
            raise Unsupported("dict.update(%r)" % (a,))
    c.update(kwargs)
    yield st, None


@method("pydict", "pop")
def _m_dpop(ip, st, recv, args, kwargs):
    c = st.cell(recv.oid, write=True)
    k = args[0]
    if is_sym(k):
        raise Unsupported("dict.pop(symbolic)")
    if k in c:
        yield st, c.pop(k)
    elif len(args) > 1:
        yield st, args[1]
    else:
        yield st, Raise(mk_exc(st, "KeyError", k))


@method("pydict", "setdefault")
def _m_dsetdefault(ip, st, recv, args, kwargs):
    c = st.cell(recv.oid, write=True)
    k = args[0]
    if is_sym(k):
        raise Unsupported("dict.setdefault(symbolic)")
    yield st, c.setdefault(k, args[1] if len(args) > 1 else None)


@method("symlist", "append")
def _m_sappend(ip, st, recv, args, kwargs):
    raise Unsupported("append to symbolic list (needs a rebindable model)")


def super_method(ip, st, proxy, name, args, kwargs):
    mro = proxy.obj.cls.mro() if isinstance(proxy.obj, Obj) else proxy.cls.mro()
    start = mro.index(proxy.cls) + 1
    for c in mro[start:]:
        if name in c.attrs:
            yield from ip.call(st, c.attrs[name], [proxy.obj] + list(args), kwargs)
            return
    if name == "__init__":
        yield st, None
        return
    raise Unsupported("super().%s" % name)


# generic fallback for SuperProxy in Lib.method
_orig_method = Lib.method


def _method_with_super(self, ip, st, recv, name, args, kwargs):
    if isinstance(recv, SuperProxy):
        yield from super_method(ip, st, recv, name, args, kwargs)
        return
    yield from _orig_method(self, ip, st, recv, name, args, kwargs)


Lib.method = _method_with_super


# ====================================================================== library modules (generic)
@register_external("logging.getLogger")
def _getLogger(ip, st, args, kwargs):
    yield st, Opaque("logger")


@register_external("time.sleep")
def _sleep(ip, st, args, kwargs):
    yield st, None


struct_error = ext_class("struct.error", pycls=__import__("struct").error, is_exc=True)
struct_error.bases = []


@register_external("struct.pack")
def _struct_pack(ip, st, args, kwargs):
    fmt = args[0]
    vals = [int_of(v) for v in args[1:]]
    if is_sym(fmt):
        # only the shape "<fixed codes>%ds" % len(data) is supported: the count of the trailing 's'
        # is the symbolic term n and the last argument must be a bytes value of exactly that length
        ft = fmt.term
        if not (ft.op == "str.++" and len(ft.args) == 3 and ft.args[0].op == "str" and ft.args[2].op == "str"
                and ft.args[2].val == "s" and ft.args[1].op == "str.from_int"):
            raise Unsupported("struct.pack with symbolic format")
        n = ft.args[1].args[0]
        data = vals[-1]
        if kind_of(data) != "bytes":
            yield st, Raise(mk_exc(st, struct_error, "argument for 's' must be a bytes object"))
            return
        if not ip.must(st, tm.Eq(n, tm.Len(to_term(data)))):
            raise Unsupported("struct.pack '%ds' with a count different from len(data)")
        for st1, head in _struct_pack(ip, st, [ft.args[0].val] + list(args[1:-1]), {}):
            if isinstance(head, Raise):
                yield st1, head
            else:
                yield st1, as_value("bytes", tm.Concat(to_term(head), to_term(data)))
        return
    order = "big"
    f = fmt
    if f and f[0] in "<>!=@":
        order = "little" if f[0] == "<" else "big"
        if f[0] in "=@":
            order = "little"
        f = f[1:]
    import re
    toks = re.findall(r"(\d*)([a-zA-Z?])", f)
    pieces = []
    vi = 0
    conds = []
    for cnt, code in toks:
        if code == "s":
            v = vals[vi]
            vi += 1
            n = int(cnt) if cnt else 1
            if kind_of(v) != "bytes":
                yield st, Raise(mk_exc(st, struct_error, "argument for 's' must be a bytes object"))
                return
            if is_sym(v):
                raise Unsupported("struct.pack 's' with symbolic bytes and literal count")
            pieces.append(tm.BytesLit(v[:n].ljust(n, b"\0")))
            continue
        size = {"B": 1, "H": 2, "I": 4, "L": 4, "Q": 8}.get(code)
        if size is None:
            raise Unsupported("struct code %s" % code)
        for _ in range(int(cnt) if cnt else 1):
            v = vals[vi]
            vi += 1
            if kind_of(v) not in ("int", "bool"):
                yield st, Raise(mk_exc(st, struct_error, "required argument is not an integer"))
                return
            t = to_term(v)
            conds.append(tm.And(tm.Le(tm.Int(0), t), tm.Lt(t, tm.Int(256 ** size))))
            pieces.append(to_bytes_term(t, size, order))
    if vi != len(vals):
        yield st, Raise(mk_exc(st, struct_error, "pack expected %d items" % vi))
        return
    ok = tm.And(*conds)
    res = as_value("bytes", tm.Concat(*pieces) if pieces else tm.SeqEmpty(BYTES))
    if ip.spec:
        yield st, res
        return
    for st1, b in ip.branch(st, Sym("bool", ok)):
        if b:
            yield st1, res
        else:
            yield st1, Raise(mk_exc(st1, struct_error, "argument out of range"))


import string as _string
for _n in ("ascii_letters", "digits", "ascii_lowercase", "ascii_uppercase", "hexdigits"):
    EXTERNAL_VALUES["string." + _n] = getattr(_string, _n)


@register_external("random.seed")
def _random_seed(ip, st, args, kwargs):
    yield st, None


@register_external("random.choice")
def _random_choice(ip, st, args, kwargs):
    (seq,) = args
    if isinstance(seq, str) and seq:
        c = tm.Fresh("choice", INT)
        codes = sorted({ord(ch) for ch in seq})
        st.assume(tm.Or(*[tm.Eq(c, tm.Int(k)) for k in codes]))
        yield st, Sym("str", tm.T("str.from_code", (c,), STR))
        return
    raise Unsupported("random.choice over %r" % (seq,))


@register_external("os.urandom")
def _urandom(ip, st, args, kwargs):
    n = int_of(args[0])
    r = Sym("bytes", tm.Fresh("urandom", BYTES))
    st.assume(tm.Eq(tm.Len(r.term), to_term(n)))
    yield st, r


int_of_str = tm.FunDecl("int_of_str", [STR, INT], INT)
int_literal = tm.FunDecl("is_int_literal", [STR, INT], BOOL)
str_lower = tm.FunDecl("str.lower", [STR], STR)


@register_external("builtins.int_of_str")
def _int_of_str(ip, st, args, kwargs):
    """int(s, base): ValueError unless s is an integer literal in that base (A-LIB)"""
    s, base = args
    ok = int_literal(to_term(s), to_term(base))
    for st1, b in ip.branch(st, Sym("bool", ok)):
        if b:
            yield st1, Sym("int", int_of_str(to_term(s), to_term(base)))
        else:
            yield st1, Raise(mk_exc(st1, "ValueError", "invalid literal for int()"))


@register_external("str.lower")
def _str_lower(ip, st, args, kwargs):
    (s,) = args
    r = str_lower(to_term(s))
    st.assume(tm.Eq(tm.Len(r), tm.Len(to_term(s))))
    yield st, Sym("str", r)


# ---- operator console (A-LIB): stdout is a no-op recorded in ghost `stdout`; stdin / getpass are arbitrary
@register_external("sys.stdout.write")
def _stdout_write(ip, st, args, kwargs):
    h = EXTERNALS.get("console.record")
    if h is not None:
        h(ip, st, args[0])
    yield st, None


@register_external("sys.stdout.flush")
def _stdout_flush(ip, st, args, kwargs):
    yield st, None


@register_external("sys.stdin.readline")
def _stdin_readline(ip, st, args, kwargs):
    yield st, Sym("str", tm.Fresh("stdin_line", STR))


@register_external("getpass.getpass")
def _getpass(ip, st, args, kwargs):
    yield st, Sym("str", tm.Fresh("typed_pin", STR))


str_rstrip = tm.FunDecl("str.rstrip", [STR], STR)


@method("str", "rstrip")
def _m_rstrip(ip, st, recv, args, kwargs):
    if not is_sym(recv):
        yield st, recv.rstrip(*args)
        return
    yield st, Sym("str", str_rstrip(recv.term))


for _n in GENEXP_CONSUMERS:
    if _n in BUILTINS and _n not in TYPE_OBJS:
        BUILTINS[_n] = Builtin(_n, with_materialised_args(BUILTINS[_n].impl))

"""Discharge obligations and report."""
import time
import traceback

from . import terms as tm
from . import solve
from .values import Unsupported
from .interp import PathLimit


def discharge(ob, quick_ms=3000, cli_timeout_s=20, all_solvers=False, seed=0, workdir=None):
    neg = tm.Not(ob.goal)
    sliced = tm.cone(list(ob.pc), [neg]) + [neg]
    r = solve.check(sliced, quick_ms=quick_ms, cli_timeout_s=cli_timeout_s, all_solvers=all_solvers,
                    seed=seed, workdir=workdir)
    if r.verdict != "unsat" and len(sliced) < len(ob.pc) + 1:
        # hypotheses dropped by slicing cannot be needed unless the path is infeasible: re-check in full
        r2 = solve.check(list(ob.pc) + [neg], quick_ms=quick_ms, cli_timeout_s=cli_timeout_s,
                         all_solvers=all_solvers, seed=seed, workdir=workdir)
        if r2.verdict == "unsat" or r.verdict == "unknown":
            r = r2
    ob.result = r
    return r


def verify_contract(verifier, cls, **kw):
    """Returns dict(status=..., obligations=[...])"""
    t0 = time.time()
    n0 = len(verifier.obligations)
    try:
        verifier.verify(cls)
        status = "ok"
        err = None
    except Unsupported as e:
        status, err = "unsupported", str(e)
    except PathLimit as e:
        status, err = "pathlimit", str(e)
    obs = verifier.obligations[n0:]
    for ob in obs:
        discharge(ob, **kw)
    return dict(status=status, error=err, obligations=obs, time=time.time() - t0,
                stats=verifier.stats.get((cls.file, cls.qualname)))

"""Discharge obligations and report."""
import time
import traceback

from . import terms as tm
from . import solve
from .values import Unsupported
from .interp import PathLimit


def discharge(ob, quick_ms=3000, cli_timeout_s=20, all_solvers=False, seed=0, workdir=None):
    neg = tm.Not(ob.goal)
    sliced = tm.cone(list(ob.pc), [neg], getattr(ob, 'defs', None)) + [neg]
    r = solve.check(sliced, quick_ms=quick_ms, cli_timeout_s=cli_timeout_s, all_solvers=all_solvers,
                    seed=seed, workdir=workdir)
    if r.verdict != "unsat" and len(sliced) < len(ob.pc) + 1:
        # hypotheses dropped by slicing cannot be needed unless the path is infeasible: re-check in full
        r2 = solve.check(list(ob.pc) + [neg], quick_ms=quick_ms, cli_timeout_s=cli_timeout_s,
                         all_solvers=all_solvers, seed=seed, workdir=workdir)
        if r2.verdict == "unsat" or r.verdict == "unknown":
            r = r2
    ob.result = r
    return r


def verify_contract(verifier, cls, prop=None, **kw):
    """Returns dict(status=..., obligations=[...]).  With `prop`, only the obligations deciding that property
    are kept (and discharged)."""
    t0 = time.time()
    n0 = len(verifier.obligations)
    try:
        verifier.verify(cls)
        status = "ok"
        err = None
    except Unsupported as e:
        status, err = "unsupported", str(e)
    except PathLimit as e:
        status, err = "pathlimit", str(e)
    obs = verifier.obligations[n0:]
    if prop is not None:
        obs = [ob for ob in obs if prop in ob.serves]
    discharge_all(obs, **kw)
    return dict(status=status, error=err, obligations=obs, time=time.time() - t0,
                stats=verifier.stats.get((cls.file, cls.qualname)),
                precondition=precondition_witness(verifier.entry_pcs.get((cls.file, cls.qualname)), kw.get("workdir")),
                normal_exit=exit_witness(verifier.exit_pcs.get((cls.file, cls.qualname)), kw.get("workdir")))


def exit_witness(pcs, workdir=None):
    """Vacuity guard for postconditions: is some normal exit of the function reachable?  'none' (the exploration found no
    normal exit at all) | 'sat' (a solver produced a model of one normal exit's path condition) | 'unsat' (normal exits
    were explored but every one is infeasible: the postconditions hold vacuously) | 'unknown'."""
    if not pcs:
        return "none"
    pcs = sorted(pcs, key=len)
    verdicts = []
    for pc in pcs[:3]:
        r = solve.z3_check(pc, 5000, want_model=False, rlimit=400000)
        v = r.verdict
        if v == "unknown":
            res = solve.cli_race(tm.smt_script(pc, produce_models=False), 5, workdir)
            got = {x.verdict for x in res.values()} - {"unknown"}
            v = got.pop() if len(got) == 1 else "unknown"
        if v == "unknown" and any(tm.has_quantifier(a) for a in pc):
            # quantified hypotheses expanded over lists of length <= 2: a model of the restriction is a model
            inst = tm.bounded_instance(list(pc), 2)
            if inst is not None:
                res = solve.cli_race(tm.smt_script(inst, produce_models=False), 5, workdir)
                if any(x.verdict == "sat" for x in res.values()):
                    v = "sat"
        if v == "sat":
            return "sat"
        verdicts.append(v)
    return "unsat" if len(verdicts) == len(pcs) and all(v == "unsat" for v in verdicts) else "unknown"


def precondition_witness(pcs, workdir=None):
    """Vacuity guard: is the state right after `requires` (and the parameter shapes) satisfiable?
    'none' (no requires) | 'sat' (a solver produced a model of one entry state) | 'unsat' (every entry state is
    contradictory: the contract proves nothing) | 'unknown'."""
    if pcs is None:
        return "none"
    if not pcs:
        return "unsat"
    verdicts = []
    for pc in pcs[:4]:
        r = solve.z3_check(pc, 5000, want_model=False, rlimit=400000)
        if r.verdict == "unknown":
            res = solve.cli_race(tm.smt_script(pc, produce_models=False), 10, workdir)
            got = {v.verdict for v in res.values()} - {"unknown"}
            v = got.pop() if len(got) == 1 else "unknown"
        else:
            v = r.verdict
        if v == "sat":
            return "sat"
        verdicts.append(v)
    return "unsat" if all(v == "unsat" for v in verdicts) and len(verdicts) == len(pcs) else "unknown"


def discharge_all(obs, quick_ms=300, cli_timeout_s=20, all_solvers=False, seed=0, workdir=None, threads=3,
                  _nodedupe=False, cheap_keys=(), chunk=60):
    """Obligations are processed in chunks; once 8 obligations of the function are open (failed or undecided) the
    remaining ones are not attempted (they are reported undecided): a function that already fails does not
    deserve minutes of solver time."""
    if len(obs) > chunk and not _nodedupe:
        open_ = 0
        for k in range(0, len(obs), chunk):
            part = obs[k:k + chunk]
            if open_ >= 8:
                for ob in part:
                    ob.result = solve.Result("unknown", "budget", 0.0, None,
                                             detail="not attempted: 8 obligations of this function already open")
                continue
            _discharge_chunk(part, quick_ms, cli_timeout_s, all_solvers, seed, workdir, threads, _nodedupe, cheap_keys)
            open_ += sum(1 for ob in part if ob.result.verdict != "unsat"
                         and ob.oid.rsplit("#", 1)[0] not in cheap_keys)
        return
    _discharge_chunk(obs, quick_ms, cli_timeout_s, all_solvers, seed, workdir, threads, _nodedupe, cheap_keys)


def _discharge_chunk(obs, quick_ms=300, cli_timeout_s=20, all_solvers=False, seed=0, workdir=None, threads=3,
                     _nodedupe=False, cheap_keys=()):
    """Stage 1: in-process z3 with a short budget (sequential: z3py contexts are not thread safe).
    Stage 2: everything not proved goes to the command-line portfolio, several obligations at a time."""
    from concurrent.futures import ThreadPoolExecutor
    pending = []
    seen = {}           # identical sliced queries (same hypotheses, same goal) are solved once
    dup = []
    for ob in obs:
        neg = tm.Not(ob.goal)
        if tm.symbols(neg):
            sliced = tm.cone(list(ob.pc), [neg], getattr(ob, 'defs', None)) + [neg]
        else:
            sliced = list(ob.pc) + [neg]      # "this path is infeasible": the whole path condition matters
        if any(a.op == "forall" for a in sliced[:-1]):
            extra = [x for x in tm.index_instances(sliced[:-1], neg) if x not in sliced]
            sliced = sliced[:-1] + extra + [neg]
        key = frozenset(sliced)
        if key in seen and not _nodedupe:
            dup.append((ob, seen[key]))
            continue
        seen[key] = ob
        # most obligations do not need the quantified hypotheses (all(...) results, list coercions, policy
        # predicates): try without them first - fewer hypotheses can only make the proof harder, never unsound
        if any(tm.has_quantifier(a) for a in sliced[:-1]):
            qf = [a for a in sliced[:-1] if not tm.has_quantifier(a)] + [neg]
            r = solve.z3_check(qf, 5000, want_model=False, seed=seed, rlimit=150000)
            if r.verdict == "unsat" and not all_solvers:
                r.all = {"z3py": ("unsat", round(r.time, 3))}
                r.solver = "z3py(quantifier-free hypotheses)"
                ob.result = r
                continue
        r = solve.z3_check(sliced, 5000, want_model=False, seed=seed, rlimit=150000)
        if r.verdict == "unsat" and not all_solvers:
            r.all = {"z3py": ("unsat", round(r.time, 3))}
            ob.result = r
        else:
            pending.append((ob, sliced, r))

    notproved = [0]

    def work(item):
        ob, sliced, r0 = item
        r = _work(item)
        if r[1][0] != "unsat":
            notproved[0] += 1
        return r

    def _work(item):
        ob, sliced, r0 = item
        cli_t = cli_timeout_s
        if notproved[0] >= 8:
            # this function already has several open obligations: the remaining ones are left undecided
            return ob, ("unknown", {"budget": solve.Result("unknown", "budget", 0.0,
                                                           detail="not attempted: 8 obligations of this function already open")})
        if ob.oid.rsplit("#", 1)[0] in cheap_keys:
            cli_t = min(cli_timeout_s, 4)       # obligation of a recorded known finding: expected not to be provable
        res = {}
        if any(tm.has_quantifier(a) for a in sliced[:-1]) and not all_solvers:
            qf = [a for a in sliced[:-1] if not tm.has_quantifier(a)] + [sliced[-1]]
            res = solve.cli_race(tm.smt_script(qf, produce_models=False), min(cli_t, 5), workdir)
            if any(v.verdict == "unsat" for v in res.values()):
                res = {k + "/qf-hyps": v for k, v in res.items() if v.verdict == "unsat"}
                res["z3py"] = r0
                return ob, ("unsat", res)
        script = tm.smt_script(sliced, produce_models=False)
        res = solve.cli_race(script, cli_t, workdir, wait_all=all_solvers)
        res["z3py"] = r0
        definite = {v.verdict for v in res.values() if v.verdict != "unknown"}
        if len(definite) > 1:
            return ob, ("disagree", res)
        verdict = definite.pop() if definite else "unknown"
        if verdict != "unsat" and len(sliced) < len(ob.pc) + 1:
            full = tm.smt_script(list(ob.pc) + [tm.Not(ob.goal)], produce_models=False)
            res2 = solve.cli_race(full, cli_t, workdir, wait_all=False)
            d2 = {v.verdict for v in res2.values() if v.verdict != "unknown"}
            if "unsat" in d2:
                verdict, res = "unsat", {k + "/full": v for k, v in res2.items()}
                for v in res.values():
                    v.solver = v.solver + "/full"
            elif verdict == "unknown" and d2:
                verdict, res = d2.pop(), res2
        if verdict == "unknown" and cli_t == cli_timeout_s and any(tm.has_quantifier(a) for a in list(ob.pc) + [ob.goal]):
            # bounded falsification (lists of length <= 2, quantified hypotheses expanded): a model of
            # the restricted problem is a genuine counter-model; an unsat answer proves nothing
            inst = tm.bounded_instance(list(ob.pc) + [tm.Not(ob.goal)], 2)
            if inst is not None:
                res3 = solve.cli_race(tm.smt_script(inst, produce_models=False),
                                      cli_timeout_s, workdir, wait_all=False)
                if any(v.verdict == "sat" for v in res3.values()):
                    ob.meta["bounded_falsification"] = "lists of length <= 2"
                    ob.meta["bounded_pc"] = inst
                    return ob, ("sat", {k: v for k, v in res3.items()})
        return ob, (verdict, res)

    if pending:
        with ThreadPoolExecutor(max_workers=threads) as ex:
            for ob, (verdict, res) in ex.map(work, pending):
                if verdict == "disagree":
                    raise solve.SolverDisagreement({k: v.verdict for k, v in res.items()})
                summary = {k: (v.verdict, round(v.time, 3)) for k, v in res.items()}
                wins = sorted([v for v in res.values() if v.verdict == verdict], key=lambda v: v.time)
                win = wins[0] if wins else None
                wall = max([v.time for v in res.values()] or [0])
                ob.result = solve.Result(verdict, win.solver if win else "portfolio", wall, None,
                                         detail="; ".join("%s: %s" % (k, v.detail) for k, v in res.items() if v.detail),
                                         all_=summary)
    redo = []
    for ob, first in dup:
        r0 = first.result
        if r0.verdict == "unsat" and "full" not in r0.solver:
            # the identical (sliced) query was proved: the proof is this obligation's proof too
            ob.result = solve.Result("unsat", r0.solver + "(same query)", 0.0, None, r0.detail, dict(r0.all))
        else:
            redo.append(ob)       # anything else is decided on this obligation's own full path condition
    if redo:
        _discharge_chunk(redo, quick_ms, cli_timeout_s, all_solvers, seed, workdir, threads, _nodedupe=True,
                         cheap_keys=cheap_keys)
    # models for failed obligations (in-process z3, bounded effort) -- used for replay only
    for ob in obs:
        if ob.result.verdict == "sat":
            pc = ob.meta.pop("bounded_pc", None) or list(ob.pc)
            r2 = solve.z3_check(pc if "bounded_falsification" in ob.meta else pc + [tm.Not(ob.goal)], 5000,
                                want_model=True, seed=seed)
            if r2.verdict == "sat":
                ob.result.model = r2.model

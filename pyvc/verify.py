"""Contract-based verification on top of the symbolic interpreter.

verify(contract): execute the function's real AST from a havocked pre-state satisfying `requires`,
cut loops with invariants and calls with callee contracts, and emit one proof obligation for each
postcondition clause / exceptional postcondition / call-site precondition / invariant clause on
each path.  Obligations are discharged by the solver portfolio (solve.py).
"""
import ast
import inspect
import os
import textwrap
import time

from . import terms as tm
from .terms import T, INT, BOOL, STR, BYTES, J
from .values import (Sym, JVal, Obj, PyList, PyDict, FiniteMap, ClassVal, FuncVal, BoundMethod, Builtin, ModuleVal,
                     Opaque, Raise, Unsupported, SymObjSeq, kind_of, to_term, as_value, kind_sort, is_sym)
from . import values as V
from . import interp as I
from . import lib as L
from . import libmodels as LM
from . import solve


# ------------------------------------------------------------------------------ kind specs
class Spec:
    def __init__(self, tag, *a, **kw):
        self.tag, self.a, self.kw = tag, a, kw

    def __repr__(self):
        return "%s%r" % (self.tag, self.a)


INT_ = Spec("int")
BOOL_ = Spec("bool")
STR_ = Spec("str")
BYTES_ = Spec("bytes")
JSON_ = Spec("json")
NONE_ = Spec("none")


def LIST(elem):
    return Spec("list", elem)


def CONST(v):
    return Spec("const", v)


def OBJ(cls, **fields):
    return Spec("obj", cls, **fields)


def ONEOF(*alts):
    return Spec("oneof", *alts)


def REPO(path):
    """a value taken from the repository: 'module:dotted.attr'"""
    return Spec("repo", path)


def OPAQUE(tag, **attrs):
    return Spec("opaque", tag, **attrs)


def RAW(sort):
    return Spec("raw", sort)


def TUPLE(*elems):
    return Spec("tuple", *elems)


def ENUM(path):
    return Spec("enum", path)


def NEW(cls, *args, **overrides):
    """an instance obtained by running the class's real constructor on arguments made from specs; keyword
    specs then overwrite fields (e.g. a flag the constructor initialises but requests may have changed)"""
    return Spec("new", cls, *args, **overrides)


def PYLIST(*elems):
    return Spec("pylist", *elems)


def PYDICT(**items):
    return Spec("pydict", **items)


def JSONOV(**overlay):
    """JSON dict value some of whose keys have been replaced in place by non-JSON values"""
    return Spec("jsonov", **overlay)


def FMAP(universe, value_spec):
    """dict over a finite universe of constant keys; each entry may be absent"""
    return Spec("fmap", tuple(universe), value_spec)


def OBJSEQ(cls, **fields):
    return Spec("objseq", cls, **fields)


def spec_kind(spec):
    if spec.tag in ("int", "bool", "str", "bytes", "json"):
        return spec.tag
    if spec.tag == "list":
        return ("list", spec_kind(spec.a[0]))
    raise Unsupported("spec_kind(%r)" % (spec,))


class Contract:
    """Base class of sidecar contracts (see /verif/contracts)."""
    file = None
    qualname = None
    serves = ()
    params = {}            # name -> Spec
    self_spec = None       # Spec for `self` (OBJ(...))
    result = None          # Spec of the normal result (for callers)
    requires = ()          # clause functions
    ensures = ()           # clause functions (args by name + result, g, old)
    raises = {}            # "module:Class" -> Exc(...)
    invariants = {}        # loop ordinal -> list of clause functions
    loop_locals = {}       # loop ordinal -> {name: Spec}
    variants = {}          # loop ordinal -> function
    modifies_self = {}     # field -> Spec : fields of self havocked by a call
    inline_callees = ()    # qualnames to inline although they have contracts
    assume_only = False    # True: external / trusted (never verified, listed as assumption)
    covers = ()            # names of return statements that must be reachable (text fragments)
    pure = False           # no ghost change
    ghost_frame = None     # names of ghost variables possibly modified (None = all)
    max_paths = None


class Exc:
    def __init__(self, args=(), post=(), fields=None, when=None):
        self.args, self.post, self.fields, self.when = tuple(args), tuple(post), fields or {}, when


CUT = ClassVal("VerificationCut", "pyvc", [I.builtin_exc("BaseException")], {}, qualname="pyvc.VerificationCut")
CUT.is_exc = True
CONTRACTS = {}


def only(*props):
    """clause decorator: this clause decides only these properties (default: all the contract serves)"""
    def deco(fn):
        fn._serves = tuple(props)
        return fn
    return deco


def contract(file, qualname, serves=()):
    def deco(cls):
        cls.file, cls.qualname = file, qualname
        if serves:
            cls.serves = tuple(serves)
        CONTRACTS[(file, qualname)] = cls
        return cls
    return deco


GHOST_SCHEMA = {}     # name -> Spec, filled by spec modules
GHOST_LOCAL = set()   # ghost variables changed only by one external (never havocked by contract application)
GHOST_LOGS = set()    # write-only logs (console output): arbitrary at every loop head, whatever the loop does


# ------------------------------------------------------------------------------ clause evaluation
_ast_cache = {}


def func_ast(fn):
    key = fn
    r = _ast_cache.get(key)
    if r is None:
        src = textwrap.dedent(inspect.getsource(fn))
        node = ast.parse(src).body[0]
        if isinstance(node, ast.Assign):      # name = lambda ...: ...
            node = node.value
        r = node
        _ast_cache[key] = r
    return r


class SpecFn:
    """A Python function from a sidecar evaluated symbolically in spec mode (inlined)."""

    def __init__(self, fn):
        self.fn = fn

    def __deepcopy__(self, memo):
        return self


def native(fn):
    """Sidecar helper called directly with values: fn(ip, st, *values) -> value"""
    fn._native = True
    return fn


class Obligation:
    __slots__ = ("oid", "func", "kind", "label", "pc", "goal", "trace", "result", "serves", "meta", "defs", "entry_env",
                 "result_value", "exc_class")

    def __init__(self, oid, func, kind, label, pc, goal, trace, serves, meta=None):
        self.oid, self.func, self.kind, self.label = oid, func, kind, label
        self.pc, self.goal, self.trace, self.serves = pc, goal, trace, serves
        self.result = None
        self.meta = meta or {}


class Verifier:
    def __init__(self, repo_root, contracts=None, lib=None, ghost_schema=None):
        self.repo_root = repo_root
        self.lib = lib or LM.Lib()
        self.contracts = contracts if contracts is not None else CONTRACTS
        self.ip = I.Interp(repo_root, self.lib, self.contracts)
        self.ip.current_verifier = self
        self.ip.spec_env = {}
        self.ghost_schema = ghost_schema if ghost_schema is not None else GHOST_SCHEMA
        self.obligations = []
        self.cur = None           # contract being verified
        self.cur_func = None
        self.counter = {}
        self.stats = {}
        self.entry_pcs = {}      # (file, qualname) -> path conditions right after the preconditions were assumed
        self.exit_pcs = {}       # (file, qualname) -> path conditions of the normal exits (reachability witness)
        self.unsupported = []

    # ---------------------------------------------------------------- repository lookups
    def resolve(self, path):
        """'ledger.hsm2dongle:HSM2Dongle.CMD' -> value"""
        modname, _, attr = path.partition(":")
        m = self.ip.load_module(modname)
        v = m
        st = I.State()
        st.frames.append(I.Frame(None, {}))
        for part in attr.split(".") if attr else []:
            (s, v), = list(self.ip.getattr(st, v, part))
            if isinstance(v, Raise):
                raise Unsupported("cannot resolve %s" % path)
        return v

    def find_function(self, file, qualname):
        modname = file[:-3].replace("/", ".")
        m = self.ip.load_module(modname)
        v = m
        parts = qualname.split(".")
        cur = m.env.get(parts[0])
        for p in parts[1:]:
            if isinstance(cur, ClassVal):
                cur = cur.attrs.get(p)
            else:
                cur = None
        if not isinstance(cur, FuncVal):
            raise Unsupported("function %s:%s not found" % (file, qualname))
        return cur

    # ---------------------------------------------------------------- value creation
    def make(self, st, spec, name):
        """Generator of (st, value) for a Spec (ONEOF / ENUM fork)."""
        tag = spec.tag
        if tag in ("int", "bool", "str", "bytes"):
            t = tm.Fresh(name, kind_sort(tag))
            yield st, Sym(tag, t)
        elif tag == "json":
            yield st, JVal(tm.Fresh(name, J), st.alloc({}))
        elif tag == "none":
            yield st, None
        elif tag == "list":
            k = spec_kind(spec)
            yield st, Sym(k, tm.Fresh(name, kind_sort(k)))
        elif tag == "raw":
            yield st, Sym(("raw", spec.a[0]), tm.Fresh(name, spec.a[0]))
        elif tag == "const":
            v = spec.a[0]
            if isinstance(v, list):
                v = st.new_list(v)
            elif isinstance(v, dict):
                v = st.new_dict(v)
            yield st, v
        elif tag == "repo":
            yield st, self.resolve(spec.a[0])
        elif tag == "opaque":
            attrs = {}
            cur = [(st, attrs)]
            for k, sp in spec.kw.items():
                nxt = []
                for s1, a in cur:
                    for s2, v in self.make(s1, sp, name + "." + k):
                        a2 = dict(a)
                        a2[k] = v
                        nxt.append((s2, a2))
                cur = nxt
            for s1, a in cur:
                yield s1, Opaque(spec.a[0], a)
        elif tag == "tuple":
            cur = [(st, [])]
            for k, sp in enumerate(spec.a):
                nxt = []
                for s1, acc in cur:
                    for s2, v in self.make(s1, sp, "%s.%d" % (name, k)):
                        nxt.append((s2, acc + [v]))
                cur = nxt
            for s1, acc in cur:
                yield s1, tuple(acc)
        elif tag in ("pylist", "pydict", "jsonov"):
            items = list(enumerate(spec.a)) if tag == "pylist" else list(spec.kw.items())
            cur = [(st, [])]
            for k, sp in items:
                nxt = []
                for s1, acc in cur:
                    for s2, v in self.make(s1, sp, "%s.%s" % (name, k)):
                        nxt.append((s2, acc + [(k, v)]))
                cur = nxt
            for s1, acc in cur:
                if tag == "pylist":
                    yield s1, s1.new_list([v for _, v in acc])
                elif tag == "pydict":
                    yield s1, s1.new_dict(dict(acc))
                else:
                    yield s1, JVal(tm.Fresh(name, J), s1.alloc(dict(acc)))
        elif tag == "new":
            cls = self.resolve(spec.a[0])
            cur = [(st, [])]
            for k, sp in enumerate(spec.a[1:]):
                nxt = []
                for s1, acc in cur:
                    for s2, v in self.make(s1, sp, "%s.arg%d" % (name, k)):
                        nxt.append((s2, acc + [v]))
                cur = nxt
            for s1, acc in cur:
                for s2, o in self.ip.instantiate(s1, cls, acc, {}):
                    if isinstance(o, Raise):
                        raise Unsupported("constructor of %s raised while building a pre-state" % cls.name)
                    cur2 = [s2]
                    for k, sp in spec.kw.items():
                        nxt2 = []
                        for s3 in cur2:
                            for s4, v in self.make(s3, sp, "%s.%s" % (name, k)):
                                s4.fields(o, True)[k] = v
                                nxt2.append(s4)
                        cur2 = nxt2
                    for s3 in cur2:
                        yield s3, o
        elif tag == "fmap":
            universe, vspec = spec.a
            cur = [(st, {})]
            for k in universe:
                nxt = []
                for s1, acc in cur:
                    for s2, v in self.make(s1, vspec, "%s[%s]" % (name, k)):
                        a2 = dict(acc)
                        a2[k] = (tm.Fresh("%s.has[%s]" % (name, k), BOOL), v)
                        nxt.append((s2, a2))
                cur = nxt
            for s1, acc in cur:
                yield s1, FiniteMap(s1.alloc(acc))
        elif tag == "oneof":
            alts = list(spec.a)
            for k, alt in enumerate(alts):
                s = st if k == len(alts) - 1 else st.fork()
                yield from self.make(s, alt, name)
        elif tag == "enum":
            cls = self.resolve(spec.a[0])
            members = list(cls.pycls)
            for k, m in enumerate(members):
                s = st if k == len(members) - 1 else st.fork()
                yield s, m
        elif tag == "obj":
            cls = spec.a[0]
            if isinstance(cls, str):
                cls = self.resolve(cls)
            cur = [(st, {})]
            for k, sp in spec.kw.items():
                nxt = []
                for s1, a in cur:
                    for s2, v in self.make(s1, sp, name + "." + k):
                        a2 = dict(a)
                        a2[k] = v
                        nxt.append((s2, a2))
                cur = nxt
            for s1, a in cur:
                o = s1.new_obj(cls, a)
                if cls.node is not None:
                    I.PARTIAL_OIDS.add(o.oid)       # a repository class described only by the fields the spec declares
                yield s1, o
        elif tag == "objseq":
            cls = spec.a[0]
            if isinstance(cls, str):
                cls = self.resolve(cls)
            n = tm.Fresh(name + ".len", INT)
            st.assume(tm.Le(tm.Int(0), n))
            fields = {}
            for k, sp in spec.kw.items():
                kk = spec_kind(sp)
                fields[k] = (kk, tm.Fresh(name + "." + k, tm.ArrayOf(INT, kind_sort(kk))))
            yield st, SymObjSeq(cls, n, fields)
        else:
            raise Unsupported("make(%r)" % (spec,))

    def init_ghost(self, st, prefix="g"):
        for name, spec in self.ghost_schema.items():
            (s, v), = list(self.make(st, spec, "%s.%s" % (prefix, name)))
            st.ghost[name] = v

    def old_view(self, st, env):
        """entry-state view of the arguments: JSON values lose their (mutable) overlay, i.e. `old.request`
        is the request as received"""
        out = {}
        for k, v in env.items():
            if isinstance(v, JVal) and v.oid is not None and not st.cell(v.oid):
                out[k] = JVal(v.term, None)
            elif isinstance(v, Obj) and v.oid in st.heap:
                out[k] = self.snapshot(st, v, 3)                      # snapshot of the fields at entry
            else:
                out[k] = v
        return out

    def snapshot(self, st, obj, depth):
        flds = dict(st.fields(obj))
        if depth > 0:
            for fk, fv in flds.items():
                if isinstance(fv, Obj) and fv.oid in st.heap:
                    flds[fk] = self.snapshot(st, fv, depth - 1)
        return Obj(obj.cls, st.alloc(flds))

    def ghost_view(self, st):
        return Opaque("ghost", dict(st.ghost))

    # ---------------------------------------------------------------- spec evaluation
    def eval_clause(self, st, fn, env):
        """Evaluate a clause function in spec mode; env: name -> value. Returns Bool term."""
        v = self.call_spec(st, fn, env, by_name=True)
        if isinstance(v, bool):
            return tm.Bool(v)
        if isinstance(v, Sym) and v.kind == "bool":
            return v.term
        raise Unsupported("clause %s returned %r" % (getattr(fn, "__name__", fn), v))

    def call_spec(self, st, fn, env, by_name=False, args=None):
        ip = self.ip
        if getattr(fn, "_native", False):
            if by_name:
                sig = inspect.signature(fn)
                names = list(sig.parameters)[2:]
                return fn(ip, st, *[env[n] for n in names])
            return fn(ip, st, *args)
        node = func_ast(fn)
        if isinstance(node, ast.Lambda):
            pnames = [a.arg for a in node.args.args]
            body = [ast.Return(value=node.body)]
        else:
            pnames = [a.arg for a in node.args.args]
            body = node.body
        if by_name:
            # a parameter with a default (always None) names an optional local variable of the code
            ndef = len(node.args.defaults)
            optional = set(pnames[len(pnames) - ndef:]) if ndef else set()
            missing = [n for n in pnames if n not in env and n not in optional]
            if missing:
                raise Unsupported("clause %s: unknown names %s" % (fn.__name__, missing))
            local = {n: env.get(n) for n in pnames}
        else:
            if len(args) != len(pnames):
                raise Unsupported("spec function %s arity" % fn.__name__)
            local = dict(zip(pnames, args))
        saved = (ip.spec, ip.spec_env)
        ip.spec = True
        globs = fn.__globals__
        if fn.__closure__:
            globs = dict(globs)
            for nm, cell in zip(fn.__code__.co_freevars, fn.__closure__):
                try:
                    globs[nm] = cell.cell_contents
                except ValueError:
                    pass
        ip.spec_env = SpecEnv(local, globs, self)
        try:
            return self.exec_spec_body(st, body)
        finally:
            ip.spec, ip.spec_env = saved

    def exec_spec_body(self, st, body):
        ip = self.ip
        for s in body:
            if isinstance(s, ast.Expr) and isinstance(s.value, ast.Constant):
                continue
            if isinstance(s, ast.Assign) and len(s.targets) == 1 and isinstance(s.targets[0], ast.Name):
                (_, v), = list(ip.eval(s.value, st))
                ip.spec_env.local[s.targets[0].id] = v
                continue
            if isinstance(s, ast.Return):
                (_, v), = list(ip.eval(s.value, st))
                return v
            if isinstance(s, ast.If):
                (_, c), = list(ip.eval(s.test, st))
                c = ip.truth(st, c)
                if isinstance(c, bool):
                    r = self.exec_spec_body(st, s.body if c else s.orelse)
                    if r is not None or any(isinstance(x, ast.Return) for x in (s.body if c else s.orelse)):
                        return r
                    continue
                # symbolic condition: decided by the path condition if possible, else both branches -> ite
                if ip.must(st, c.term):
                    r = self.exec_spec_body(st, s.body + [x for x in body[body.index(s) + 1:]])
                    return r
                if ip.must(st, tm.Not(c.term)):
                    r = self.exec_spec_body(st, s.orelse + [x for x in body[body.index(s) + 1:]])
                    return r
                rest = [x for x in body[body.index(s) + 1:]]
                a = self.exec_spec_body(st, s.body + rest)
                b = self.exec_spec_body(st, s.orelse + rest)
                return L.ite_value(c.term, a, b)
            raise Unsupported("spec statement %s" % type(s).__name__)
        return None

    # ---------------------------------------------------------------- obligations
    def emit(self, st, kind, label, goal, meta=None, serves=None):
        if goal.op == "bool" and goal.val:
            self.counter["trivial"] = self.counter.get("trivial", 0) + 1
            return
        # a universally quantified goal is proved for fresh constants (skolemisation of the negated goal): sound, and
        # it leaves the solvers a quantifier-free goal
        def skolemise(t):
            if t.op == "forall":
                bvs, body = t.args
                return skolemise(tm.substitute(body, {bv: tm.Fresh("sk." + str(bv.val), bv.sort) for bv in bvs}))
            if t.op == "and":
                return tm.And(*[skolemise(a) for a in t.args])
            if t.op == "=>":
                return tm.Implies(t.args[0], skolemise(t.args[1]))
            return t
        goal = skolemise(goal)
        if goal.op == "bool" and goal.val:
            self.counter["trivial"] = self.counter.get("trivial", 0) + 1
            return
        c = self.cur
        key = "%s:%s:%s:%s" % (c.file, c.qualname, kind, label)
        n = self.counter.get(key, 0)
        self.counter[key] = n + 1
        ob = Obligation("%s#%d" % (key, n), "%s:%s" % (c.file, c.qualname), kind, label, list(st.pc), goal,
                        list(st.trace), tuple(serves if serves is not None else c.serves), meta)
        ob.defs = dict(st.defs)
        # for the replay of counter-models on the real code: the argument values at entry, the value returned /
        # the class of the exception raised on this path
        ob.entry_env = getattr(st, "entry_env", None)
        ob.result_value = getattr(st, "exit_result", None)
        ob.exc_class = getattr(st, "exit_exc", None)
        self.obligations.append(ob)

    # ---------------------------------------------------------------- verifying one function
    def verify(self, cls):
        """Symbolically execute the function under contract `cls`; fills self.obligations."""
        ip = self.ip
        self.cur = cls
        f = self.find_function(cls.file, cls.qualname)
        self.cur_func = f
        if cls.max_paths:
            ip.max_paths = cls.max_paths
        ip.no_contract = {(cls.file, cls.qualname)} | {k for k in self.contracts if k[1] in cls.inline_callees}
        # contracts of callees that hold for THIS caller only (e.g. an assumed contract specialised to the kind of
        # object the caller passes): they replace the registered ones while this function is verified
        over = getattr(cls, "callee_contracts", None) or {}
        if over:
            merged = dict(self.contracts)
            merged.update(over)
            self.contracts = merged
            ip.contracts = merged
        st0 = I.State()
        st0.frames.append(I.Frame(f, {}))
        self.init_ghost(st0)
        # parameters
        a = f.node.args
        pnames = [p.arg for p in a.posonlyargs + a.args + a.kwonlyargs]
        states = [(st0, {})]
        for p in pnames:
            if f.cls is not None and f.kind == "function" and p == pnames[0] and cls.self_spec is not None:
                spec = cls.self_spec
            elif p in cls.params:
                spec = cls.params[p]
            else:
                raise Unsupported("no spec for parameter %s of %s" % (p, cls.qualname))
            nxt = []
            for s, env in states:
                for s2, v in self.make(s, spec, p):
                    e2 = dict(env)
                    e2[p] = v
                    nxt.append((s2, e2))
            states = nxt
        npaths = 0
        outcomes = []
        for st, env in states:
            st.frames[-1].locals.update(env)
            old = Opaque("old", dict(self.old_view(st, env), g=self.ghost_view(st)))
            st.old = old
            spec_env = dict(env, g=self.ghost_view(st), old=old)
            ok = True
            for r in cls.requires:
                t = self.eval_clause(st, r, spec_env)
                st.assume(t)
            if not ip.feasible(st):
                continue
            if cls.requires:
                self.entry_pcs.setdefault((cls.file, cls.qualname), []).append(list(st.pc))
            st.entry_env = dict(env)
            for s1, out in ip.exec_block(f.node.body, st):
                outcomes.append((s1, out, env, old))
        results = {"normal": 0, "raise": 0}
        for s1, out, env, old in outcomes:
            self.check_exit(s1, out, env, old, cls)
            results["normal" if out[0] != "raise" else "raise"] += 1
            if out[0] != "raise":
                self.exit_pcs.setdefault((cls.file, cls.qualname), []).append(list(s1.pc))
        self.stats[(cls.file, cls.qualname)] = dict(paths=len(outcomes), **results)
        return outcomes

    def check_exit(self, st, out, env, old, cls):
        ip = self.ip
        if out[0] in ("normal", "return"):
            result = out[1] if out[0] == "return" else None
            st.exit_result = ("value", result)
            spec_env = dict(env, result=result, g=self.ghost_view(st), old=old)
            if isinstance(env.get("self"), Obj):
                pass
            for e in cls.ensures:
                t = self.eval_clause(st, e, spec_env)
                self.emit(st, "post", e.__name__, t, serves=getattr(e, "_serves", None))
            # clauses over the final values of the function's own local variables
            for e in getattr(cls, "at_exit", ()):
                envx = dict(st.frames[-1].locals, result=result, g=self.ghost_view(st), old=old)
                self.emit(st, "post", "at-exit." + e.__name__, self.eval_clause(st, e, envx))
            # clauses that must hold on every return reached while a given local is still unbound
            # (e.g. "no device exchange on any return that precedes the dispatch")
            for nm, e in getattr(cls, "at_exit_if_unbound", ()):
                if nm not in st.frames[-1].locals:
                    envx = dict(st.frames[-1].locals, result=result, g=self.ghost_view(st), old=old)
                    self.emit(st, "post", "at-exit-before-%s.%s" % (nm, e.__name__), self.eval_clause(st, e, envx),
                              serves=getattr(e, "_serves", None))
            st.trace.append("return")
            return
        if out[0] == "raise":
            exc = out[1]
            if exc.cls is CUT:
                return          # path deliberately ended by `cut_after`: nothing is claimed beyond that call
            entry = self.match_raises(cls, exc)
            cname = exc.cls.name
            st.exit_exc = cname
            if entry is None:
                self.emit(st, "xpost", "no-" + cname, tm.FALSE,
                          meta={"exception": cname, "args": repr(st.fields(exc).get("args"))},
                          serves=getattr(cls, "exception_serves", None))
                return
            spec_env = dict(env, exc=exc, g=self.ghost_view(st), old=old)
            if entry.when is not None:
                t = self.eval_clause(st, entry.when, spec_env)
                self.emit(st, "xpost", "when-" + cname, t)
            for e in entry.post:
                t = self.eval_clause(st, e, spec_env)
                self.emit(st, "xpost", cname + "." + e.__name__, t, serves=getattr(e, "_serves", None))
            return
        raise Unsupported("break/continue at function level")

    def match_raises(self, cls, exc):
        best = None
        for path, entry in cls.raises.items():
            c = self.resolve_class(path)
            if exc.cls is c:
                return entry
            if exc.cls.is_subclass(c) and best is None:
                best = entry
        return best

    def resolve_class(self, path):
        if ":" not in path:
            return I.builtin_exc(path)
        return self.resolve(path)

    # ---------------------------------------------------------------- calls through contracts
    def coerce(self, st, v, spec, label):
        """A JSON value passed where the callee's contract declares a plain kind: the view of that kind,
        with an obligation that the JSON value indeed has it on this path."""
        if not isinstance(v, JVal) or spec is None:
            return v
        tag = V.j_tag(v.term)
        t = spec.tag
        if t == "json" or t == "jsonov":
            return v
        if t == "oneof":
            alts = [a.tag for a in spec.a]
            if "none" in alts and self.ip.must(st, tm.Eq(tag, tm.Int(V.TAG_NONE))):
                return None
            for a in spec.a:
                if a.tag != "none":
                    return self.coerce(st, v, a, label)
        if t == "str":
            self.emit(st, "pre", label + ".is-str", tm.Eq(tag, tm.Int(V.TAG_STR)))
            st.assume(tm.Eq(tag, tm.Int(V.TAG_STR)))
            return Sym("str", V.j_sval(v.term))
        if t == "int":
            self.emit(st, "pre", label + ".is-int", tm.Eq(tag, tm.Int(V.TAG_INT)))
            st.assume(tm.Eq(tag, tm.Int(V.TAG_INT)))
            return Sym("int", V.j_ival(v.term))
        if t == "list" and spec.a[0].tag == "str":
            i = tm.BoundVar(tm.fresh_name("ci"), INT)
            n = V.j_llen(v.term)
            rng = tm.And(tm.Le(tm.Int(0), i), tm.Lt(i, n))
            allstr = tm.ForAll([i], tm.Implies(rng, tm.Eq(V.j_tag(V.j_lget(v.term, i)), tm.Int(V.TAG_STR))))
            goal = tm.And(tm.Eq(tag, tm.Int(V.TAG_LIST)), allstr)
            self.emit(st, "pre", label + ".is-list-of-str", goal)
            st.assume(goal)
            sl = j_strlist(v.term)
            st.assume(tm.Eq(tm.Len(sl), n))
            st.assume(tm.Le(tm.Int(0), n))
            st.assume(tm.Lt(n, tm.Int(2 ** 32)))            # A-MEM
            st.assume(tm.ForAll([i], tm.Implies(rng, tm.Eq(tm.Nth(sl, i), V.j_sval(V.j_lget(v.term, i))))))
            return Sym(("list", "str"), sl)
        raise Unsupported("coercion of JSON value to %r" % (spec,))

    def apply_contract(self, st, f, cls, args, kwargs, node):
        ip = self.ip
        bound = ip.bind_args(f, args, kwargs, st)
        for pn, pv in list(bound.items()):
            if isinstance(pv, JVal) and pn in cls.params:
                bound[pn] = self.coerce(st, pv, cls.params[pn], "%s.%s" % (cls.qualname, pn))
        old = Opaque("old", dict(self.old_view(st, bound), g=self.ghost_view(st)))
        spec_env = dict(bound, g=self.ghost_view(st), old=old)
        # precondition: obligation at the call site, then assumed
        caller = self.cur
        for r in cls.requires:
            t = self.eval_clause(st, r, spec_env)
            self.emit(st, "pre", "%s.%s" % (cls.qualname, r.__name__), t, serves=getattr(r, "_serves", None))
            st.assume(t)
        # caller-side assertions attached to this call site by the caller's contract
        if caller is not None and len(st.frames) >= 1:
            for fn in getattr(caller, "at_calls", {}).get(cls.qualname.split(".")[-1], []):
                envc = {}
                for frm in st.frames:          # inlined frames see the enclosing locals (inner shadows outer)
                    envc.update(frm.locals)
                envc.update(g=self.ghost_view(st), old=getattr(st, "old", None))
                for k2, v2 in bound.items():
                    envc["arg_" + k2] = v2
                self.emit(st, "assert", "at-%s.%s" % (cls.qualname.split(".")[-1], fn.__name__),
                          self.eval_clause(st, fn, envc))
        st.trace.append("call %s" % cls.qualname)
        outcomes = []
        # exceptional outcomes
        for path, entry in cls.raises.items():
            s2_0 = st.fork()
            if not cls.pure:
                self.havoc_ghost(s2_0, cls)
            ecls = self.resolve_class(path)
            for s2 in self.havoc_self(s2_0, cls, bound):
                argvals = []
                for k, sp in enumerate(entry.args):
                    (s2, v), = list(self.make(s2, sp, "exc.arg%d" % k))
                    argvals.append(v)
                exc = I.make_exc(s2, ecls, *argvals)
                for k, sp in entry.fields.items():
                    (s2, v), = list(self.make(s2, sp, "exc." + k))
                    s2.fields(exc, True)[k] = v
                env2 = dict(bound, exc=exc, g=self.ghost_view(s2), old=old)
                if entry.when is not None:
                    s2.assume(self.eval_clause(s2, entry.when, env2))
                for e in entry.post:
                    s2.assume(self.eval_clause(s2, e, env2))
                # (declared outcomes are kept without a solver call: an outcome excluded by the path condition
                #  only yields obligations that hold vacuously)
                ip.count_path()
                s2.trace.append("  raises %s" % ecls.name)
                outcomes.append((s2, Raise(exc)))
        # normal outcome
        if not cls.pure:
            self.havoc_ghost(st, cls)
        results = []
        rspec = cls.result
        if rspec is not None and not isinstance(rspec, Spec):
            rspec = rspec(bound)           # result kind chosen by the (concrete) arguments
        for st_n in self.havoc_self(st, cls, bound):
            if rspec is None:
                results.append((st_n, None))
            else:
                results.extend(self.make(st_n, rspec, "ret." + cls.qualname.split(".")[-1]))
        for s3, res in results:
            env3 = dict(bound, result=res, g=self.ghost_view(s3), old=old)
            for e in cls.ensures:
                s3.assume(self.eval_clause(s3, e, env3))
            outcomes.append((s3, res))
        cut = getattr(caller, "cut_after", None) if caller is not None else None
        for o in outcomes:
            if cut and cls.qualname.split(".")[-1] == cut and not isinstance(o[1], Raise):
                # the caller's contract covers the function only up to this call: end the path here
                o[0].trace.append("  (verification cut after %s)" % cut)
                yield o[0], Raise(I.make_exc(o[0], CUT))
            else:
                yield o

    def havoc_ghost(self, st, cls):
        names = cls.ghost_frame if cls.ghost_frame is not None else [n for n in self.ghost_schema if n not in GHOST_LOCAL]
        for name in names:
            (s, v), = list(self.make(st, self.ghost_schema[name], "g." + name))
            st.ghost[name] = v

    def havoc_self(self, st, cls, bound):
        """havoc the fields the callee may write; a ONEOF spec forks (returns the list of resulting states)"""
        if not cls.modifies_self:
            return [st]
        self_obj = bound.get("self")
        states = [st]
        for k, sp in cls.modifies_self.items():
            nxt = []
            for s0 in states:
                made = list(self.make(s0, sp, "self." + k))
                for s1, v in made:
                    s1.fields(self_obj, True)[k] = v
                    nxt.append(s1)
            states = nxt
        return states

    # ---------------------------------------------------------------- loops
    def loop_ordinal(self, func_node, loop_node):
        loops = [n for n in ast.walk(func_node) if isinstance(n, (ast.For, ast.While))]
        loops.sort(key=lambda n: (n.lineno, n.col_offset))
        return loops.index(loop_node)

    def exec_loop(self, ip, st, node):
        fr = st.frames[-1]
        f = fr.func
        # concrete iteration: unroll
        if isinstance(node, ast.For):
            outs = []
            for st1, it in ip.eval(node.iter, st):
                if isinstance(it, Raise):
                    outs.append((st1, ("raise", it.exc)))
                    continue
                items = LM.concrete_items(ip, st1, it)
                if items is not None:
                    outs.extend(self.unroll(ip, st1, node, items))
                elif isinstance(it, JVal):
                    # iterating a JSON value: lists item by item, strings by character, objects by key;
                    # anything else is not iterable
                    for st2, c in L.narrow(ip, st1, it):
                        if isinstance(c, L.JList):
                            outs.extend(self.loop_with_invariant(ip, st2, node, f, c))
                        elif isinstance(c, Sym) and c.kind == "str":
                            outs.extend(self.loop_with_invariant(ip, st2, node, f, c))
                        elif isinstance(c, L.JDict):
                            outs.extend(self.loop_with_invariant(ip, st2, node, f, c))
                        else:
                            outs.append((st2, ("raise", I.make_exc(st2, "TypeError", "object is not iterable"))))
                else:
                    outs.extend(self.loop_with_invariant(ip, st1, node, f, it))
            return outs
        return self.loop_with_invariant(ip, st, node, f, None)

    def unroll(self, ip, st, node, items):
        cur = [st]
        done = []
        for x in items:
            nxt = []
            for s in cur:
                for s1, o in ip.assign(s, node.target, x):
                    if o[0] != "normal":
                        done.append((s1, o))
                        continue
                    for s2, o2 in ip.exec_block(node.body, s1):
                        if o2[0] in ("normal", "continue"):
                            nxt.append(s2)
                        elif o2[0] == "break":
                            done.append((s2, ("normal",)))
                        else:
                            done.append((s2, o2))
            cur = nxt
        for s in cur:
            if node.orelse:
                done.extend(ip.exec_block(node.orelse, s))
            else:
                done.append((s, ("normal",)))
        return done

    def assigned_names(self, body):
        names = []
        for n in body:
            for x in ast.walk(n):
                if isinstance(x, ast.Name) and isinstance(x.ctx, ast.Store) and x.id not in names:
                    names.append(x.id)
                if isinstance(x, (ast.FunctionDef, ast.Lambda)):
                    pass
        return names

    def loop_with_invariant(self, ip, st, node, f, iterable):
        cls = self.contract_for_function(f)
        if cls is None:
            raise Unsupported("loop in %s without contract/invariant" % (f.qualname if f else "?"))
        ordinal = self.loop_ordinal(f.node, node)
        if ordinal in getattr(cls, "unwind", {}):
            return self.unwind_loop(ip, st, node, cls, ordinal, cls.unwind[ordinal])
        if getattr(self, "bounded", None):
            # re-check mode (see checker.py): loops are executed exactly, up to `bounded` iterations, instead of being cut by
            # their invariant - paths that need more iterations are dropped, nothing is havocked
            return self.bounded_unroll(ip, st, node, iterable, self.bounded)
        if ordinal not in cls.invariants:
            raise Unsupported("no invariant for loop %d of %s" % (ordinal, cls.qualname))
        invs = cls.invariants[ordinal]
        old = getattr(st, "old", None)
        fr = st.frames[-1]
        saved_cur = self.cur
        label = "loop%d" % ordinal
        is_for = isinstance(node, ast.For)
        idx_name = "_i%d" % ordinal
        elem_of = None
        n_term = None
        if is_for:
            elem_of, n_term = self.iter_model(ip, st, iterable)
            fr.locals[idx_name] = 0

        def env_of(s, i_val=None):
            loc = dict(s.frames[-1].locals)
            if i_val is not None:
                loc[idx_name] = i_val
                loc["i"] = i_val
            elif is_for:
                loc["i"] = loc.get(idx_name)
            loc["g"] = self.ghost_view(s)
            loc["old"] = old
            return loc

        # 1. invariant holds on entry (variables first bound inside the loop are arbitrary there)
        decl0 = cls.loop_locals.get(ordinal, {})
        body_names = set(self.assigned_names(node.body))
        if is_for:
            body_names |= {x.id for x in ast.walk(node.target) if isinstance(x, ast.Name)}
        for nm in decl0:
            if nm not in body_names and nm not in fr.locals:
                # the contract describes a variable this loop no longer has (renamed / removed): what the clauses say about
                # it would be about an unrelated arbitrary value
                raise Unsupported("loop variable %s, declared by the contract for loop %d of %s, is not a variable of that loop"
                                  % (nm, ordinal, cls.qualname))
        for nm, sp in decl0.items():
            if nm not in fr.locals:
                made = list(self.make(st, sp, nm + "@entry"))
                if len(made) != 1:
                    raise Unsupported("loop variable %s (declared with alternatives) is not bound when loop %d of %s is entered"
                                      % (nm, ordinal, cls.qualname))
                (st, v), = made
                fr = st.frames[-1]
                fr.locals[nm] = v
        for inv in invs:
            self.emit(st, "inv-init", "%s.%s" % (label, inv.__name__), self.eval_clause(st, inv, env_of(st)))
        # 2. havoc (a ONEOF declaration forks the arbitrary iteration)
        self._havoc_floor = I._oid[0]        # heap cells allocated from here on belong to the arbitrary iteration
        names = self.assigned_names(node.body)
        if is_for:
            for x in ast.walk(node.target):
                if isinstance(x, ast.Name) and x.id not in names:
                    names.append(x.id)
        decl = cls.loop_locals.get(ordinal, {})
        for nm in decl:
            # containers mutated in place (x[k] = v, x.append(v)) are declared by the contract
            if nm not in names and nm in fr.locals:
                names.append(nm)
        states = [st]
        for nm in names:
            nxt = []
            for s0 in states:
                fr0 = s0.frames[-1]
                if nm in decl:
                    for s1, v in self.make(s0, decl[nm], nm):
                        s1.frames[-1].locals[nm] = v
                        nxt.append(s1)
                else:
                    if nm in fr0.locals:
                        fr0.locals[nm] = self.havoc_like(s0, fr0.locals[nm], nm)
                    nxt.append(s0)
            states = nxt
        for fld, sp in self.loop_self_fields(cls, ordinal).items():
            nxt = []
            for s0 in states:
                for s1, v in self.make(s0, sp, "self." + fld):
                    s1.fields(s1.frames[-1].locals["self"], True)[fld] = v
                    nxt.append(s1)
            states = nxt
        outs_all = []
        floor = self._havoc_floor
        for s0 in states:
            outs_all.extend(self._loop_iteration(ip, s0, node, cls, ordinal, invs, is_for, idx_name, elem_of, n_term,
                                                 env_of, label, old, floor))
        return outs_all

    def bounded_unroll(self, ip, st, node, iterable, K):
        is_for = isinstance(node, ast.For)
        elem_of = n_term = None
        if is_for:
            elem_of, n_term = self.iter_model(ip, st, iterable)
        outs, cur = [], [st]
        for k in range(K + 1):
            nxt = []
            for s0 in cur:
                branches = []
                if is_for:
                    branches = list(ip.branch(s0, Sym("bool", tm.Lt(tm.Int(k), n_term))))
                else:
                    for st1, c in ip.eval(node.test, s0):
                        if isinstance(c, Raise):
                            outs.append((st1, ("raise", c.exc)))
                        else:
                            branches.extend(ip.branch(st1, ip.truth(st1, c)))
                for st2, b in branches:
                    if not b:
                        if node.orelse:
                            outs.extend(ip.exec_block(node.orelse, st2))
                        else:
                            outs.append((st2, ("normal",)))
                        continue
                    if k == K:
                        continue            # beyond the bound: this path is not explored
                    if is_for:
                        bodies = []
                        for s3, o in ip.assign(st2, node.target, elem_of(st2, tm.Int(k))):
                            if o[0] != "normal":
                                outs.append((s3, o))
                            else:
                                bodies.extend(ip.exec_block(node.body, s3))
                    else:
                        bodies = ip.exec_block(node.body, st2)
                    for s3, o in bodies:
                        if o[0] in ("normal", "continue"):
                            nxt.append(s3)
                        elif o[0] == "break":
                            outs.append((s3, ("normal",)))
                        else:
                            outs.append((s3, o))
            cur = nxt
        return outs

    @staticmethod
    def loop_self_fields(cls, ordinal):
        """fields of self that are arbitrary at the head of loop `ordinal`: what the contract declares for that loop,
        and by default every field the function as a whole is declared to modify (`modifies_self`)"""
        d = dict(getattr(cls, "modifies_self", None) or {})
        d.update(getattr(cls, "loop_modifies_self", {}).get(ordinal, {}))
        return d

    @staticmethod
    def _same_value(a, b):
        if a is b:
            return True
        if isinstance(a, Sym) and isinstance(b, Sym):
            return a.kind == b.kind and a.term is b.term
        if isinstance(a, JVal) and isinstance(b, JVal):
            return a.term is b.term and a.oid == b.oid
        if isinstance(a, tuple) and isinstance(b, tuple):
            return len(a) == len(b) and all(Verifier._same_value(x, y) for x, y in zip(a, b))
        if isinstance(a, (Obj, PyList, PyDict, FiniteMap)) or isinstance(b, (Obj, PyList, PyDict, FiniteMap)):
            return type(a) is type(b) and a.oid == b.oid
        if isinstance(a, T) and isinstance(b, T):
            return a is b
        try:
            return type(a) is type(b) and bool(a == b)
        except Exception:
            return False

    def check_loop_frame(self, st_head_cells, s3, cls, ordinal, self_oid):
        """Cut-point soundness: the arbitrary iteration started from a state in which only the declared variables
        were arbitrary; an iteration that writes to any other object that existed before the loop would make the
        next iteration start from a state the exploration never considered."""
        declared = set(self.loop_self_fields(cls, ordinal))
        for oid, snap in st_head_cells.items():
            cur = s3.heap.get(oid)
            if cur is None:
                continue
            if isinstance(snap, list):
                same = isinstance(cur, list) and len(cur) == len(snap) and all(self._same_value(x, y) for x, y in zip(cur, snap))
                changed = None if same else ["<list contents>"]
            else:
                keys = set(snap) | set(cur)
                changed = [k for k in keys if k not in snap or k not in cur or not self._same_value(snap[k], cur[k])]
            if not changed:
                continue
            if oid == self_oid and all(k in declared for k in changed):
                continue
            raise Unsupported("loop %d of %s writes to an object that existed before the loop (#%d: %s) and is not declared "
                              "as modified (loop_locals / loop_modifies_self)" % (ordinal, cls.qualname, oid, sorted(map(str, changed))[:4]))

    def _loop_iteration(self, ip, st, node, cls, ordinal, invs, is_for, idx_name, elem_of, n_term, env_of, label, old,
                        floor=None):
        fr = st.frames[-1]
        head_cells = {}
        havocked_ghost = set()
        if self.loop_touches_ghost(node, st):
            havocked_ghost = set(cls.ghost_frame if cls.ghost_frame is not None
                                 else [n for n in self.ghost_schema if n not in GHOST_LOCAL])
        if floor is not None:
            head_cells = {oid: (list(c) if isinstance(c, list) else dict(c)) for oid, c in st.heap.items() if oid <= floor}
        self_v = fr.locals.get("self")
        self_oid = self_v.oid if isinstance(self_v, Obj) else None
        if self.loop_touches_ghost(node, st):
            self.havoc_ghost(st, cls)
        for gname in GHOST_LOGS:
            if gname in self.ghost_schema and gname not in havocked_ghost:
                (_, gv), = list(self.make(st, self.ghost_schema[gname], "g." + gname))
                st.ghost[gname] = gv
                havocked_ghost.add(gname)
        head_ghost = dict(st.ghost)
        if is_for:
            i_t = tm.Fresh(idx_name, INT)
            fr.locals[idx_name] = Sym("int", i_t)
            st.assume(tm.And(tm.Le(tm.Int(0), i_t), tm.Le(i_t, n_term)))
        # 3. assume invariant
        for inv in invs:
            st.assume(self.eval_clause(st, inv, env_of(st)))
        st.trace.append("loop %d: arbitrary iteration" % ordinal)
        outs = []
        if not is_for:
            branches = []
            for st1, c in ip.eval(node.test, st):
                if isinstance(c, Raise):
                    outs.append((st1, ("raise", c.exc)))
                    continue
                for st2, b in ip.branch(st1, ip.truth(st1, c)):
                    branches.append((st2, b))
        else:
            i_t = fr.locals[idx_name].term
            branches = list(ip.branch(st, Sym("bool", tm.Lt(i_t, n_term))))
        for st2, b in branches:
            if not b:
                if node.orelse:
                    outs.extend(ip.exec_block(node.orelse, st2))
                else:
                    outs.append((st2, ("normal",)))
                continue
            if is_for:
                i_val = st2.frames[-1].locals[idx_name]
                x = elem_of(st2, i_val.term)
                bodies = []
                for s3, o in ip.assign(st2, node.target, x):
                    if o[0] != "normal":
                        outs.append((s3, o))
                    else:
                        bodies.extend(ip.exec_block(node.body, s3))
            else:
                bodies = ip.exec_block(node.body, st2)
            for s3, o in bodies:
                if o[0] in ("normal", "continue"):
                    self.check_loop_frame(head_cells, s3, cls, ordinal, self_oid)
                    for gname, gv in head_ghost.items():
                        if gname not in havocked_ghost and not self._same_value(gv, s3.ghost.get(gname)):
                            raise Unsupported("loop %d of %s changes ghost state '%s' that is not arbitrary at the loop head "
                                              "(declare it in the contract's ghost_frame)" % (ordinal, cls.qualname, gname))
                    i_next = None
                    if is_for:
                        i_next = as_value("int", tm.Add(s3.frames[-1].locals[idx_name].term, tm.Int(1)))
                    for inv in invs:
                        self.emit(s3, "inv-step", "%s.%s" % (label, inv.__name__),
                                  self.eval_clause(s3, inv, env_of(s3, i_next)))
                    var = cls.variants.get(ordinal)
                    if var is not None:
                        before = self.eval_value(st2, var, env_of(st2))
                        after = self.eval_value(s3, var, env_of(s3, i_next))
                        self.emit(s3, "variant", "%s.decreases" % label,
                                  tm.And(tm.Le(tm.Int(0), to_term(before)), tm.Lt(to_term(after), to_term(before))))
                    # path ends here (cut point)
                elif o[0] == "break":
                    outs.append((s3, ("normal",)))
                else:
                    outs.append((s3, o))
        return outs

    def unwind_loop(self, ip, st, node, cls, ordinal, bound):
        """`while` loop unrolled `bound` times, then an unwinding assertion: no path may start a further iteration.
        When that obligation is discharged the unrolling is complete (and the loop terminates on every input)."""
        if not isinstance(node, ast.While):
            raise Unsupported("unwind of a for loop")
        outs = []
        cur = [st]
        for k in range(bound + 1):
            nxt = []
            for s0 in cur:
                for st1, c in ip.eval(node.test, s0):
                    if isinstance(c, Raise):
                        outs.append((st1, ("raise", c.exc)))
                        continue
                    for st2, b in ip.branch(st1, ip.truth(st1, c)):
                        if not b:
                            if node.orelse:
                                outs.extend(ip.exec_block(node.orelse, st2))       # while ... else: runs when the test fails
                            else:
                                outs.append((st2, ("normal",)))
                            continue
                        if k == bound:
                            self.emit(st2, "unwind", "loop%d.at-most-%d-iterations" % (ordinal, bound), tm.FALSE)
                            continue
                        for s3, o in ip.exec_block(node.body, st2):
                            if o[0] in ("normal", "continue"):
                                nxt.append(s3)
                            elif o[0] == "break":
                                outs.append((s3, ("normal",)))
                            else:
                                outs.append((s3, o))
            cur = nxt
        return outs

    def eval_value(self, st, fn, env):
        return self.call_spec(st, fn, env, by_name=True)

    def loop_touches_ghost(self, node, st):
        """May an iteration reach the device (the only thing that changes ghost state)?  Conservative:
        method calls on objects / opaque device handles, and calls of repo functions without a `pure`
        contract count; builtins, methods of builtin kinds and loggers do not."""
        fr = st.frames[-1]
        for x in ast.walk(node):
            if not isinstance(x, ast.Call):
                continue
            f = x.func
            if isinstance(f, ast.Attribute):
                root = f
                while isinstance(root, ast.Attribute):
                    root = root.value
                if isinstance(root, ast.Call):
                    return True
                if not isinstance(root, ast.Name):
                    continue
                try:
                    v = self.ip.lookup_name(st, root.id)
                except Unsupported:
                    return True
                if isinstance(v, Obj):
                    chain = []
                    y = f
                    while isinstance(y, ast.Attribute):
                        chain.append(y.attr)
                        y = y.value
                    if "logger" in chain:
                        continue
                    return True
                if isinstance(v, Opaque) and v.tag not in ("logger",):
                    return True
                if isinstance(v, (ClassVal, ModuleVal)) and not (isinstance(v, ModuleVal) and v.path is None):
                    return True
                continue
            if isinstance(f, ast.Name):
                try:
                    v = self.ip.lookup_name(st, f.id)
                except Unsupported:
                    return True
                if isinstance(v, Builtin):
                    continue
                if isinstance(v, FuncVal):
                    c = self.contract_for_function(v)
                    if c is not None and c.pure:
                        continue
                    return True
                if isinstance(v, ClassVal):
                    if I.is_exc_class(v):
                        continue
                    return True
                return True
        return False

    def havoc_like(self, st, cur, name):
        k = kind_of(cur)
        if isinstance(cur, bool) or k == "bool":
            return Sym("bool", tm.Fresh(name, BOOL))
        if k in ("int", "str", "bytes") or L.is_list_kind(k):
            return Sym(k, tm.Fresh(name, kind_sort(k)))
        if isinstance(cur, JVal):
            return JVal(tm.Fresh(name, J))
        if isinstance(cur, tuple):
            return tuple(self.havoc_like(st, x, "%s.%d" % (name, n)) for n, x in enumerate(cur))
        if cur is None:
            raise Unsupported("loop variable %s is None at entry: declare it in loop_locals" % name)
        raise Unsupported("cannot havoc loop variable %s of kind %s: declare it in loop_locals" % (name, k))

    def iter_model(self, ip, st, it):
        """(elem_of(st, i_term) -> value, length term) for a symbolic iterable."""
        if isinstance(it, I.SymRange):
            lo, hi = to_term(L.int_of(it.start)), to_term(L.int_of(it.stop))
            n = tm.Max(tm.Sub(hi, lo), tm.Int(0))
            return (lambda s, i: as_value("int", tm.Add(lo, i))), n
        if isinstance(it, I.SymEnumerate):
            inner, n = self.iter_model(ip, st, it.seq)
            start = to_term(L.int_of(it.start))
            return (lambda s, i: (as_value("int", tm.Add(start, i)), inner(s, i))), n
        if isinstance(it, Sym) and (L.is_list_kind(it.kind) or it.kind == "bytes"):
            n = tm.Len(it.term)

            def el(s, i):
                e = tm.Nth(it.term, i)
                if it.kind == "bytes":
                    L.byte_fact(s, e)
                return L.elem_value(it.kind, e)
            return el, n
        if isinstance(it, SymObjSeq):
            return (lambda s, i: ip.lib.objseq_elem(ip, s, it, i)), it.length
        if isinstance(it, Opaque) and "elements" in it.attrs:
            # an external iterable described by a symbolic list and a wrapper for its elements
            seq, wrap = it.attrs["elements"], it.attrs.get("wrap", lambda e: e)
            return (lambda s, i: wrap(L.elem_value(seq.kind, tm.Nth(seq.term, i)))), tm.Len(seq.term)
        if isinstance(it, JVal):
            k = L.known_tag(ip, st, it)
            if k == V.TAG_LIST:
                return (lambda s, i: JVal(V.j_lget(it.term, i))), V.j_llen(it.term)
            raise Unsupported("for over JSON value whose tag is not known to be list")
        if isinstance(it, L.JList):
            return (lambda s, i: JVal(V.j_lget(it.term, i))), V.j_llen(it.term)
        if isinstance(it, L.JDict):
            return (lambda s, i: Sym("str", j_dict_key(it.term, i))), V.j_dlen(it.term)
        if isinstance(it, Sym) and it.kind == "str":
            return (lambda s, i: Sym("str", tm.Nth(it.term, i))), tm.Len(it.term)
        if isinstance(it, (PyList, tuple)):
            sym = L.to_seq_sym(st, it)
            return self.iter_model(ip, st, sym)
        raise Unsupported("for over %r" % (it,))

    def contract_for_function(self, f):
        if f is None or f.module is None or f.module.path is None:
            return None
        rel = os.path.relpath(f.module.path, self.repo_root)
        return self.contracts.get((rel, f.qualname))


class SpecEnv:
    """Name resolution in spec mode: clause locals, then the sidecar module's globals."""

    def __init__(self, local, globs, verifier):
        self.local, self.globs, self.verifier = local, globs, verifier

    def __contains__(self, name):
        return name in self.local or name in self.globs or name in SPEC_BUILTINS

    def __getitem__(self, name):
        if name in self.local:
            return self.local[name]
        if name in SPEC_BUILTINS:
            return SPEC_BUILTINS[name]
        v = self.globs[name]
        return wrap_python(v, self.verifier)


def wrap_python(v, verifier):
    import types
    import enum
    if isinstance(v, (int, str, bytes, bool, type(None), tuple)) and not isinstance(v, enum.Enum):
        return v
    if isinstance(v, enum.Enum):
        return v
    if isinstance(v, RecSpec):
        def impl0(ip, st, args, kwargs, _f=v):
            yield st, _f(ip, st, *args)
        return Builtin("recspec:" + v.__name__, impl0)
    if isinstance(v, types.FunctionType):
        if getattr(v, "_native", False):
            def impl(ip, st, args, kwargs, _f=v):
                yield st, _f(ip, st, *args, **kwargs)
            return Builtin("native:" + v.__name__, impl)

        def impl2(ip, st, args, kwargs, _f=v):
            if kwargs:
                raise Unsupported("spec function keyword arguments")
            saved = (ip.spec, ip.spec_env)
            try:
                r = verifier.call_spec(st, _f, None, by_name=False, args=list(args))
            finally:
                ip.spec, ip.spec_env = saved
            yield st, r
        return Builtin("spec:" + v.__name__, impl2)
    if isinstance(v, Spec) and v.tag == "repo":
        return verifier.resolve(v.a[0])
    if isinstance(v, (Sym, JVal, Opaque, ClassVal)):
        return v
    if isinstance(v, list):
        st = I.State()
        r = st.new_list([wrap_python(x, verifier) for x in v])
        I.CONST_HEAP.update(st.heap)
        return r
    if isinstance(v, dict):
        st = I.State()
        r = st.new_dict({k: wrap_python(x, verifier) for k, x in v.items()})
        I.CONST_HEAP.update(st.heap)
        return r
    raise Unsupported("sidecar global of type %s in spec" % type(v).__name__)


# ------------------------------------------------------------------------------ spec builtins
SPEC_BUILTINS = {}


def spec_builtin(name):
    def deco(f):
        def impl(ip, st, args, kwargs):
            yield st, f(ip, st, *args, **kwargs)
        SPEC_BUILTINS[name] = Builtin("spec:" + name, impl)
        return f
    return deco


def _bt(v):
    if isinstance(v, bool):
        return tm.Bool(v)
    if isinstance(v, Sym) and v.kind == "bool":
        return v.term
    raise Unsupported("expected bool, got %r" % (v,))


@spec_builtin("implies")
def _implies(ip, st, a, b):
    return as_value("bool", tm.Implies(_bt(a), _bt(b)))


@spec_builtin("iff")
def _iff(ip, st, a, b):
    return as_value("bool", tm.Eq(_bt(a), _bt(b)))


@spec_builtin("ite")
def _ite(ip, st, c, a, b):
    c = _bt(c)
    if c.op == "bool":
        return a if c.val else b
    return L.ite_value(c, a, b)


@spec_builtin("prefix_of")
def _prefix_of(ip, st, p, s):
    return as_value("bool", tm.PrefixOf(to_term(p), to_term(s)))


@spec_builtin("sel")
def _sel(ip, st, arr, i):
    t = tm.Select(to_term(arr), to_term(L.int_of(i)))
    return wrap_sort(t)


@spec_builtin("upd")
def _upd(ip, st, arr, i, v):
    return Sym(arr.kind, tm.Store(arr.term, to_term(L.int_of(i)), to_term(v)))


def wrap_sort(t):
    s = t.sort
    if s == INT:
        return as_value("int", t)
    if s == BOOL:
        return as_value("bool", t)
    if s == STR:
        return as_value("str", t)
    if s == BYTES:
        return as_value("bytes", t)
    if s == J:
        return JVal(t)
    if s.startswith("(Seq "):
        inner = s[5:-1]
        km = {INT: "int", STR: "str", BYTES: "bytes", BOOL: "bool", J: "json"}
        if inner in km:
            return Sym(("list", km[inner]), t)
        if inner.startswith("(Seq "):
            return Sym(("list", wrap_sort(tm.Const("dummy", inner)).kind), t)
    return Sym(("raw", s), t)


@spec_builtin("forall_int")
def _forall_int(ip, st, lo, hi, fn):
    """forall i in [lo, hi): fn(i)"""
    i = tm.BoundVar(tm.fresh_name("k"), INT)
    (s, body), = list(ip.call(st, fn, [Sym("int", i)], {}))
    guard = tm.And(tm.Le(to_term(L.int_of(lo)), i), tm.Lt(i, to_term(L.int_of(hi))))
    return as_value("bool", tm.ForAll([i], tm.Implies(guard, _bt(body))))


@spec_builtin("exists_int")
def _exists_int(ip, st, lo, hi, fn):
    i = tm.BoundVar(tm.fresh_name("k"), INT)
    (s, body), = list(ip.call(st, fn, [Sym("int", i)], {}))
    guard = tm.And(tm.Le(to_term(L.int_of(lo)), i), tm.Lt(i, to_term(L.int_of(hi))))
    return as_value("bool", tm.Exists([i], tm.And(guard, _bt(body))))


@spec_builtin("is_none")
def _is_none(ip, st, v):
    return v is None


@spec_builtin("is_str")
def _is_str(ip, st, v):
    return kind_of(v) == "str"


@spec_builtin("is_instance")
def _is_instance(ip, st, v, cls):
    return isinstance(v, Obj) and v.cls.is_subclass(cls)


@spec_builtin("same_object")
def _same_object(ip, st, a, b):
    return isinstance(a, Obj) and isinstance(b, Obj) and a.oid == b.oid


@spec_builtin("same_json")
def _same_json(ip, st, a, b):
    """the two values are the same raw JSON value (equality of the uninterpreted JSON terms)"""
    if isinstance(a, JVal) and isinstance(b, JVal):
        return True if a.term is b.term else as_value("bool", tm.Eq(a.term, b.term))
    if not is_sym(a) and not is_sym(b):
        return type(a) is type(b) and a == b
    return False


@spec_builtin("hexs")
def _hexs(ip, st, b):
    return as_value("str", V.hexs(to_term(b))) if is_sym(b) else bytes(b).hex()


@spec_builtin("unhex")
def _unhex(ip, st, s):
    return as_value("bytes", V.unhex(to_term(s))) if is_sym(s) else bytes.fromhex(s)


@spec_builtin("is_hex")
def _is_hex(ip, st, s):
    if not is_sym(s):
        try:
            bytes.fromhex(s)
            return True
        except ValueError:
            return False
    return as_value("bool", V.is_hex(to_term(s)))


@spec_builtin("jtag")
def _jtag(ip, st, j):
    return as_value("int", V.j_tag(j.term))


@spec_builtin("jhas")
def _jhas(ip, st, j, k):
    return as_value("bool", V.dhas(st, j.term, to_term(k)))


@spec_builtin("jget")
def _jget(ip, st, j, k):
    return JVal(V.j_dget(j.term, to_term(k)))


@spec_builtin("jstr")
def _jstr(ip, st, j):
    return as_value("str", V.j_sval(j.term))


@spec_builtin("jint")
def _jint(ip, st, j):
    return as_value("int", V.j_ival(j.term))


@spec_builtin("jlen")
def _jlen(ip, st, j):
    return as_value("int", V.j_llen(j.term))


@spec_builtin("jdlen")
def _jdlen(ip, st, j):
    return as_value("int", V.j_dlen(j.term))


@spec_builtin("jitem")
def _jitem(ip, st, j, i):
    return JVal(V.j_lget(j.term, to_term(L.int_of(i))))


@spec_builtin("le_bytes")
def _le_bytes(ip, st, x, n):
    return as_value("bytes", LM.to_bytes_term(to_term(L.int_of(x)), n, "little"))


@spec_builtin("be_bytes")
def _be_bytes(ip, st, x, n):
    return as_value("bytes", LM.to_bytes_term(to_term(L.int_of(x)), n, "big"))


@spec_builtin("byte")
def _byte(ip, st, x):
    return as_value("bytes", tm.SeqUnit(to_term(L.int_of(x))))


@spec_builtin("field")
def _field(ip, st, obj, name):
    return st.fields(obj)[name]


j_strlist = tm.FunDecl("j.strlist", [J], tm.SeqOf(STR))
j_dict_key = tm.FunDecl("j.dict_key", [J, INT], STR)      # i-th key of a JSON object, in iteration order


class RecSpec:
    """Recursive spec function f(x..., k) over a natural number k, as an uninterpreted function whose
    defining equations are instantiated (assumed) at every mention:
        k <= 0  =>  f(x, k) = base(x)
        k >  0  =>  f(x, k) = step(x, k-1, f(x, k-1))
    Sound because the definition is well-founded (a conservative extension)."""

    def __init__(self, name, argsorts, ressort, base, step, lemma=None):
        self.decl = tm.FunDecl(name, list(argsorts) + [INT], ressort)
        self.base, self.step = base, step
        self.lemma = lemma      # (xs..., k, term) -> fact true of every value (provable by induction on k)
        self._native = True
        self.__name__ = name

    def term(self, st, xs, k, depth=1):
        t = self.decl(*xs, k)
        if self.lemma is not None:
            st.assume(self.lemma(*xs, k, t))
        st.assume(tm.Implies(tm.Le(k, tm.Int(0)), tm.Eq(t, self.base(*xs))))
        prev_k = tm.Sub(k, tm.Int(1))
        prev = self.decl(*xs, prev_k)
        st.assume(tm.Implies(tm.Gt(k, tm.Int(0)), tm.Eq(t, self.step(*xs, prev_k, prev))))
        if depth > 0 and not (k.op == "int" and k.val <= 0):
            self.term(st, xs, prev_k, depth - 1)
        return t

    def __call__(self, ip, st, *args):
        xs = [to_term(L.int_of(a)) for a in args[:-1]]
        k = to_term(L.int_of(args[-1]))
        depth = 1
        if k.op == "int":
            depth = max(1, min(k.val, 16))
        elif not tm.free_bvars(k):
            # a count that the path condition fixes to a small constant is unfolded completely
            for c in range(0, 13):
                if ip.must(st, tm.Eq(k, tm.Int(c))):
                    depth = max(1, c)
                    break
        return wrap_sort(self.term(st, xs, k, depth))


@spec_builtin("is_int")
def _is_int(ip, st, v):
    import enum as _enum
    return kind_of(v) == "int" and not isinstance(v, bool)


@spec_builtin("jeq_str")
def _jeq_str(ip, st, j, s):
    """Python's  j == <str>  for a JSON value"""
    return as_value("bool", tm.And(tm.Eq(V.j_tag(j.term), tm.Int(V.TAG_STR)), tm.Eq(V.j_sval(j.term), to_term(s))))


@spec_builtin("jeq_int")
def _jeq_int(ip, st, j, n):
    """Python's  j == <int>  for a JSON value (True == 1 and 5.0 == 5 hold in Python)"""
    return L.eq_total(ip, st, j, n)

"""Symbolic interpreter for the Python subset used by rsk-powhsm's middleware.

Forward symbolic execution with path splitting over the *real* AST (re-read from /repo on every
run).  Values are concrete Python values wherever possible and SMT terms otherwise.  Exceptions
are path outcomes.  Loops and calls to functions under contract are cut by the contracts
(see verify.py); small helpers are inlined.
"""
import ast
import copy
import enum
import os

from . import terms as tm
from .terms import T, INT, BOOL, STR, BYTES, J
from .values import (Sym, JVal, SymType, Obj, PyList, PyDict, ClassVal, FuncVal, BoundMethod, Builtin,
                     ModuleVal, Opaque, Raise, Unsupported, SymObjSeq, kind_of, to_term, as_value,
                     kind_sort, is_sym, GenExp, is_genexp)
from . import values as V
from . import solve


class PathLimit(Exception):
    pass


class Frame:
    def __init__(self, func, locals_, closure=None):
        self.func, self.locals, self.closure = func, locals_, closure


_oid = [0]
CONST_HEAP = {}                 # cells created while loading modules/classes: read-only constants


class State:
    def __init__(self):
        self.pc = []            # list of T (Bool)
        self.frames = []
        self.ghost = {}
        self.trace = []         # human readable events on this path
        self.facts = set()      # terms already asserted as typing facts (dedup)
        self.heap = {}          # oid -> dict (object fields / dict) or list
        self.axioms = set()     # facts assumed as axioms of the value model (not path conditions)
        self.syms = set()       # constant / function symbols occurring in pc
        self.defs = {}          # fact -> name of the constant it defines (fresh when the fact was assumed)
        self.handling = None
        self.loop_depth = 0

    def fork(self):
        n = State()
        n.pc = list(self.pc)
        n.facts = set(self.facts)
        n.frames = [Frame(f.func, dict(f.locals), f.closure) for f in self.frames]
        n.ghost = dict(self.ghost)
        n.trace = list(self.trace)
        n.heap = {k: (list(v) if isinstance(v, list) else dict(v)) for k, v in self.heap.items()}
        n.axioms = set(self.axioms)
        n.syms = set(self.syms)
        n.defs = dict(self.defs)
        n.handling = self.handling
        n.loop_depth = self.loop_depth
        for k in ("old", "entry_env", "in_quantifier"):
            if hasattr(self, k):
                setattr(n, k, getattr(self, k))
        if hasattr(self, "jkeys"):
            n.jkeys = dict(self.jkeys)
        return n

    # heap
    def alloc(self, cell):
        _oid[0] += 1
        self.heap[_oid[0]] = cell
        return _oid[0]

    def cell(self, oid, write=False):
        c = self.heap.get(oid)
        if c is None:
            c = CONST_HEAP.get(oid)
            if c is None:
                raise Unsupported("dangling heap reference #%d" % oid)
            if write:
                raise Unsupported("mutation of a module/class level constant container")
        return c

    def new_obj(self, cls, fields=None):
        return Obj(cls, self.alloc(dict(fields or {})))

    def new_list(self, items):
        return PyList(self.alloc(list(items)))

    def new_dict(self, d):
        return PyDict(self.alloc(dict(d)))

    def fields(self, obj, write=False):
        return self.cell(obj.oid, write)

    def assume(self, t, axiom=False):
        """axiom=True: a fact that holds of every value of that shape (lengths are non-negative, bytes are
        0..255, A-MEM, ...), as opposed to a path condition: such facts are not part of quantifier guards"""
        if isinstance(t, bool):
            t = tm.Bool(t)
        if t.op == "bool" and t.val:
            return
        if t.op == "and":
            for a in t.args:
                self.assume(a, axiom)
            return
        if axiom:
            self.axioms.add(t)
        if t not in self.facts:
            if tm.free_bvars(t) and not getattr(self, "in_quantifier", False):
                return          # a typing fact about a quantified element: meaningless outside its binder
            self.facts.add(t)
            self.pc.append(t)
            sy = tm.symbols(t)
            if t.op == "=":
                a, b = t.args
                for x, y in ((a, b), (b, a)):
                    if x.op == "const" and x.val not in self.syms and x.val not in tm.symbols(y):
                        self.defs[t] = x.val
                        break
            self.syms |= sy

    @property
    def locals(self):
        return self.frames[-1].locals


class MethodRef:
    """x.method for builtin-kind receivers (str, bytes, int, list, dict, JVal ...)."""

    def __init__(self, recv, name):
        self.recv, self.name = recv, name


class MetaFunc:
    """Marker for functools-like values: map / filter objects held lazily."""

    def __init__(self, kind, func, seq):
        self.kind, self.func, self.seq = kind, func, seq


class SymRange:
    def __init__(self, start, stop):
        self.start, self.stop = start, stop

    def __deepcopy__(self, memo):
        return self


class SymEnumerate:
    def __init__(self, seq, start):
        self.seq, self.start = seq, start


PARTIAL_OIDS = set()      # objects created from a contract's OBJ(...) spec: fields beyond the declared ones are unknown
CLASS_OVERRIDES = {}      # (class qualname, attribute) -> value : documented assumptions about class state
qn_module = {}
BUILTIN_EXC = {}


def builtin_exc(name):
    c = BUILTIN_EXC.get(name)
    if c is None:
        import builtins
        import json
        import struct as _struct
        py = getattr(builtins, name, None)
        if name == "JSONDecodeError":
            py = json.JSONDecodeError
        if name == "struct.error":
            py = _struct.error
        assert py is not None, name
        c = ClassVal(name, "builtins", [], {}, pycls=py)
        c.is_exc = True
        BUILTIN_EXC[name] = c
    return c


def make_exc(st, cls, *args, **fields):
    if isinstance(cls, str):
        cls = builtin_exc(cls)
    d = {"args": tuple(args)}
    d.update(fields)
    return st.new_obj(cls, d)


def is_exc_class(c):
    if not isinstance(c, ClassVal):
        return False
    if getattr(c, "is_exc", False):
        return True
    return any(is_exc_class(b) for b in c.bases)


def exc_matches(exc_obj, handler_cls):
    """Does `except handler_cls` catch exc_obj?  (classes are concrete on every path)"""
    if isinstance(handler_cls, tuple):
        return any(exc_matches(exc_obj, h) for h in handler_cls)
    if not isinstance(handler_cls, ClassVal):
        raise Unsupported("except clause with non-class %r" % (handler_cls,))
    return exc_obj.cls.is_subclass(handler_cls)


class Interp:
    def __init__(self, repo_root, lib, contracts=None, feas_timeout_ms=60, max_paths=20000):
        self.repo_root = repo_root
        self.lib = lib                      # library models (lib.py)
        self.contracts = contracts or {}    # qualname key -> Contract
        self.modules = {}
        self.spec = False                   # spec mode: total operations, no forking
        self.feas_cache = {}
        self.feas_timeout_ms = feas_timeout_ms
        self.feas_rlimit = 25000          # deterministic effort bound of a feasibility query
        self.paths = 0
        self.max_paths = max_paths
        self.obligations = []               # filled by verify.py through emit()
        self.current = None                 # verification context (verify.py)
        self.inline_depth = 0
        self.solver_calls = 0
        self.solver_time = 0.0
        self.files_read = {}
        self.no_contract = set()            # qualnames to inline even if a contract exists

    # ------------------------------------------------------------------ modules
    def module_path(self, modname):
        rel = modname.replace(".", "/")
        for cand in (rel + ".py", rel + "/__init__.py"):
            p = os.path.join(self.repo_root, cand)
            if os.path.exists(p):
                return p
        return None

    def load_module(self, modname):
        m = self.modules.get(modname)
        if m is not None:
            return m
        path = self.module_path(modname)
        if path is None:
            m = self.lib.library_module(self, modname)
            self.modules[modname] = m
            return m
        real = os.path.realpath(path)
        for other in self.modules.values():
            if getattr(other, "path", None) == real and other.env.get("__loaded__"):
                self.modules[modname] = other
                return other
        with open(real, "rb") as f:
            src = f.read()
        import hashlib
        self.files_read[os.path.relpath(real, self.repo_root)] = hashlib.sha256(src).hexdigest()
        tree = ast.parse(src.decode("utf-8"), filename=real)
        env = {"__name__": modname}
        m = ModuleVal(modname, env, real)
        m.tree = tree
        self.modules[modname] = m
        st = State()
        st.frames.append(Frame(None, env))
        self.exec_module_body(tree.body, st, m)
        env["__loaded__"] = True
        return m

    def exec_module_body(self, body, st, mod):
        env = mod.env
        for s in body:
            try:
                if isinstance(s, (ast.Import, ast.ImportFrom)):
                    self.do_import(s, env, mod)
                elif isinstance(s, ast.ClassDef):
                    env[s.name] = self.make_class(s, env, mod, s.name)
                elif isinstance(s, ast.FunctionDef):
                    env[s.name] = FuncVal(s, mod, s.name, None, None, self.func_kind(s))
                elif isinstance(s, ast.Assign) or isinstance(s, ast.AnnAssign):
                    outs = self.exec_stmt(s, st)
                    if len(outs) != 1 or outs[0][1][0] != "normal":
                        raise Unsupported("module-level assignment")
                    st = outs[0][0]
                    CONST_HEAP.update(st.heap)
                    if st.frames[0].locals is not env:
                        env.update(st.frames[0].locals)
                        st.frames[0].locals = env
                elif isinstance(s, ast.Expr) and isinstance(s.value, ast.Constant):
                    pass
                elif isinstance(s, ast.If):
                    pass   # if __name__ == "__main__": dropped (stated in DESIGN 3.2)
                else:
                    pass
            except Unsupported as e:
                # closed-term evaluation: a module-level constant built only from literals and constructors of repo classes
                # whose modules import under CPython (e.g. PATHS = {"btc": BIP32Path("m/44'/0'/0'/0/0"), ...}) is computed
                # by CPython from the REAL classes and reflected into interpreter values
                if isinstance(s, ast.Assign) and len(s.targets) == 1 and isinstance(s.targets[0], ast.Name):
                    try:
                        env[s.targets[0].id] = self.native_constant(s.value, env)
                        continue
                    except Exception:       # noqa
                        pass
                # leave the names opaque; using them later makes the user unsupported
                for n in ast.walk(s):
                    if isinstance(n, ast.Name) and isinstance(n.ctx, ast.Store):
                        env[n.id] = Opaque("module-level:%s (%s)" % (n.id, e))

    def native_constant(self, expr, env):
        import importlib
        import sys as _sys
        mw = self.repo_root
        if mw not in _sys.path:
            _sys.path.insert(0, mw)
        ns = {}
        for n in ast.walk(expr):
            if isinstance(n, ast.Name):
                v = env.get(n.id)
                if isinstance(v, ClassVal) and v.node is not None and getattr(v.module, "name", None):
                    ns[n.id] = getattr(importlib.import_module(v.module.name), v.name)
                elif isinstance(v, (int, str, bytes, bool)) or v is None:
                    ns[n.id] = v
                else:
                    raise Unsupported("name %s in a module-level constant" % n.id)
            elif isinstance(n, (ast.Attribute, ast.Lambda, ast.Await, ast.Yield, ast.NamedExpr)):
                raise Unsupported("construct in a module-level constant")
        val = eval(compile(ast.Expression(body=expr), "<module-level constant>", "eval"), {"__builtins__": {}}, ns)
        st = State()
        r = self.reflect(val, st, 0)
        CONST_HEAP.update(st.heap)
        return r

    def reflect(self, v, st, depth):
        if depth > 6:
            raise Unsupported("reflect depth")
        if v is None or isinstance(v, (bool, int, str, bytes)):
            return v
        if isinstance(v, tuple):
            return tuple(self.reflect(x, st, depth + 1) for x in v)
        if isinstance(v, list):
            return st.new_list([self.reflect(x, st, depth + 1) for x in v])
        if isinstance(v, dict):
            return st.new_dict({k: self.reflect(x, st, depth + 1) for k, x in v.items()})
        modname = type(v).__module__
        mod = self.load_module(modname) if hasattr(self, "load_module") else None
        cls = mod.env.get(type(v).__name__) if mod is not None else None
        if not isinstance(cls, ClassVal):
            raise Unsupported("cannot reflect %r" % (type(v),))
        return st.new_obj(cls, {k: self.reflect(x, st, depth + 1) for k, x in vars(v).items()})

    def func_kind(self, node):
        for d in node.decorator_list:
            if isinstance(d, ast.Name) and d.id in ("staticmethod", "classmethod", "property"):
                return {"staticmethod": "static", "classmethod": "class", "property": "property"}[d.id]
        return "function"

    def do_import(self, s, env, mod):
        if isinstance(s, ast.Import):
            for a in s.names:
                m = self.load_module(a.name)
                if a.asname:
                    env[a.asname] = m
                else:
                    top = a.name.split(".")[0]
                    env[top] = self.load_module(top) if "." in a.name else m
            return
        base = s.module or ""
        if s.level:
            pkg = mod.name.split(".")
            # module foo.bar -> package foo ; package __init__ -> itself
            is_pkg = mod.path and mod.path.endswith("__init__.py")
            drop = s.level - (1 if is_pkg else 0)
            pkg = pkg[:len(pkg) - drop] if drop else pkg
            base = ".".join(pkg + ([s.module] if s.module else []))
        for a in s.names:
            name = a.asname or a.name
            sub = self.module_path(base + "." + a.name) if base else None
            if sub:
                env[name] = self.load_module(base + "." + a.name)
                continue
            m = self.load_module(base)
            if a.name in m.env:
                env[name] = m.env[a.name]
            else:
                env[name] = self.lib.library_attr(self, base, a.name)

    ENUM_BASES = ("IntEnum", "Enum")

    def make_class(self, node, env, mod, qualname):
        bases = []
        is_enum = False
        for b in node.bases:
            if isinstance(b, ast.Name) and b.id in self.ENUM_BASES:
                is_enum = True
            elif isinstance(b, ast.Name) and b.id in ("object",):
                pass
            else:
                bv = self.eval_static(b, env)
                if isinstance(bv, ClassVal):
                    bases.append(bv)
                    if bv.pycls is not None and isinstance(bv.pycls, type) and issubclass(bv.pycls, enum.Enum):
                        is_enum = True
                else:
                    raise Unsupported("base class %s of %s" % (ast.dump(b), node.name))
        if is_enum:
            # DESIGN 3.3: the ClassDef node alone is executed by CPython (exact enum semantics)
            ns = {"IntEnum": enum.IntEnum, "Enum": enum.Enum, "auto": enum.auto, "object": object}
            modnode = ast.Module(body=[node], type_ignores=[])
            ast.fix_missing_locations(modnode)
            exec(compile(modnode, mod.path or "<enum>", "exec"), ns)
            c = ClassVal(node.name, mod, [], {}, node, pycls=ns[node.name], qualname=qualname)
            return c
        c = ClassVal(node.name, mod, bases, {}, node, qualname=qualname)
        cenv = dict(env)
        st = State()
        st.frames.append(Frame(None, cenv))
        for s in node.body:
            if isinstance(s, ast.FunctionDef):
                f = FuncVal(s, mod, qualname + "." + s.name, None, c, self.func_kind(s))
                c.attrs[s.name] = f
                cenv[s.name] = f
            elif isinstance(s, ast.ClassDef):
                c.attrs[s.name] = self.make_class(s, cenv, mod, qualname + "." + s.name)
                cenv[s.name] = c.attrs[s.name]
            elif isinstance(s, ast.Assign):
                try:
                    outs = self.exec_stmt(s, st)
                    if len(outs) != 1 or outs[0][1][0] != "normal":
                        raise Unsupported("class-level assignment in %s" % node.name)
                    st = outs[0][0]
                    CONST_HEAP.update(st.heap)
                    cenv = st.frames[0].locals
                    for tgt in s.targets:
                        for n in ast.walk(tgt):
                            if isinstance(n, ast.Name):
                                c.attrs[n.id] = cenv[n.id]
                except Unsupported as e:
                    for tgt in s.targets:
                        for n in ast.walk(tgt):
                            if isinstance(n, ast.Name):
                                c.attrs[n.id] = Opaque("class-level:%s.%s (%s)" % (node.name, n.id, e))
            elif isinstance(s, (ast.Expr, ast.Pass)):
                pass
            else:
                raise Unsupported("class body statement %s" % type(s).__name__)
        for (qn, attr), val in CLASS_OVERRIDES.items():
            if qn == qualname and (mod.name.endswith(qn_module.get((qn, attr), "")) ):
                c.attrs[attr] = val
        return c

    def eval_static(self, e, env):
        st = State()
        st.frames.append(Frame(None, dict(env)))
        res = list(self.eval(e, st))
        if len(res) != 1 or isinstance(res[0][1], Raise):
            raise Unsupported("static evaluation of %s" % ast.dump(e))
        CONST_HEAP.update(res[0][0].heap)
        return res[0][1]

    # ------------------------------------------------------------------ solver helpers
    def feasible(self, st, extra=None):
        """Quick satisfiability of pc (+extra); unknown counts as feasible."""
        assertions = list(st.pc)
        if extra is not None:
            if extra.op == "bool":
                if not extra.val:
                    return False
                return True if not assertions else self.feasible(st)
            # pc alone is feasible (invariant of the exploration): only the conjuncts that share
            # symbols, transitively, with the new condition can make the conjunction unsatisfiable
            assertions = tm.cone(assertions, [extra], st.defs)
            assertions.append(extra)
        key = frozenset(assertions)
        r = self.feas_cache.get(key)
        if r is None:
            self.solver_calls += 1
            res = solve.z3_check(assertions, 3000, rlimit=self.feas_rlimit)
            self.solver_time += res.time
            r = res.verdict != "unsat"
            self.feas_cache[key] = r
        return r

    def must(self, st, t):
        """Is t implied by pc (quick)?"""
        if t.op == "bool":
            return t.val
        return not self.feasible(st, tm.Not(t))

    def branch(self, st, cond):
        """Split on a boolean value. Yields (state, bool)."""
        if isinstance(cond, bool):
            yield st, cond
            return
        t = cond.term if isinstance(cond, Sym) else cond
        if t.op == "bool":
            yield st, t.val
            return
        ft = self.feasible(st, t)
        ff = True if not ft else self.feasible(st, tm.Not(t))
        if ft and ff:
            st2 = st.fork()
            st.assume(t)
            st2.assume(tm.Not(t))
            self.count_path()
            yield st, True
            yield st2, False
        elif ft:
            st.assume(t)
            yield st, True
        elif ff:
            st.assume(tm.Not(t))
            yield st, False
        # else: path infeasible, dies

    def count_path(self):
        self.paths += 1
        if self.paths > self.max_paths:
            raise PathLimit("more than %d paths" % self.max_paths)

    # ------------------------------------------------------------------ truthiness
    def truth(self, st, v):
        """Python truthiness as bool or Sym bool (total)."""
        if isinstance(v, Sym):
            if v.kind == "bool":
                return v
            if v.kind == "int":
                return Sym("bool", tm.Ne(v.term, tm.Int(0)))
            if v.kind in ("str", "bytes") or (isinstance(v.kind, tuple) and v.kind[0] == "list"):
                return Sym("bool", tm.Ne(tm.Len(v.term), tm.Int(0)))
            raise Unsupported("truth of %r" % (v,))
        if isinstance(v, JVal):
            t = v.term
            tag = V.j_tag(t)
            return Sym("bool", tm.And(
                tm.Ne(tag, tm.Int(V.TAG_NONE)),
                tm.Implies(tm.Eq(tag, tm.Int(V.TAG_BOOL)), V.j_bval(t)),
                tm.Implies(tm.Eq(tag, tm.Int(V.TAG_INT)), tm.Ne(V.j_ival(t), tm.Int(0))),
                tm.Implies(tm.Eq(tag, tm.Int(V.TAG_FLOAT)), tm.Not(V.j_fisint(t, tm.Int(0)))),
                tm.Implies(tm.Eq(tag, tm.Int(V.TAG_STR)), tm.Ne(tm.Len(V.j_sval(t)), tm.Int(0))),
                tm.Implies(tm.Eq(tag, tm.Int(V.TAG_LIST)), tm.Ne(V.j_llen(t), tm.Int(0))),
                tm.Implies(tm.Eq(tag, tm.Int(V.TAG_DICT)), tm.Ne(V.j_dlen(t), tm.Int(0)))))
        if isinstance(v, (Obj, ClassVal, FuncVal, BoundMethod, Builtin, ModuleVal)):
            return True
        if isinstance(v, (PyList, PyDict)):
            return len(st.cell(v.oid)) > 0
        if isinstance(v, V.FiniteMap):
            return Sym("bool", tm.Or(*[p for p, _ in st.cell(v.oid).values()]))
        if isinstance(v, SymObjSeq):
            return Sym("bool", tm.Ne(v.length, tm.Int(0)))
        if isinstance(v, Opaque):
            if "truth" in v.attrs:
                return v.attrs["truth"]
            if v.tag in ("dongle", "logger") or v.tag.startswith("file"):
                return True
            raise Unsupported("truth of opaque %s" % v.tag)
        return bool(v)

    # ------------------------------------------------------------------ expression evaluation
    def eval(self, e, st):
        """Generator of (state, value | Raise)."""
        m = getattr(self, "ev_" + type(e).__name__, None)
        if m is None:
            raise Unsupported("expression %s" % type(e).__name__)
        return m(e, st)

    def eval_seq(self, exprs, st):
        """Evaluate expressions left to right; yields (st, [values]) or (st, Raise)."""
        if not exprs:
            yield st, []
            return
        for st1, v in self.eval(exprs[0], st):
            if isinstance(v, Raise):
                yield st1, v
                continue
            for st2, rest in self.eval_seq(exprs[1:], st1):
                if isinstance(rest, Raise):
                    yield st2, rest
                else:
                    yield st2, [v] + rest

    def ev_Constant(self, e, st):
        yield st, e.value

    def lookup_name(self, st, name):
        for fr in (st.frames[-1],):
            if name in fr.locals:
                return fr.locals[name]
            cl = fr.closure
            while cl is not None:
                if name in cl[0]:
                    return cl[0][name]
                cl = cl[1]
            f = fr.func
            if f is not None and name in f.module.env:
                return f.module.env[name]
        b = self.lib.builtin(self, name)
        if b is not None:
            return b
        if name in BUILTIN_EXC or name in ("Exception", "BaseException", "ValueError", "TypeError",
                                          "KeyError", "IndexError", "OSError", "RuntimeError",
                                          "NotImplementedError", "UnicodeDecodeError", "OverflowError",
                                          "ConnectionError", "KeyboardInterrupt", "AttributeError",
                                          "RecursionError", "StopIteration", "AssertionError",
                                          "FileNotFoundError", "IOError", "ZeroDivisionError"):
            return builtin_exc(name if name != "IOError" else "OSError")
        raise Unsupported("unbound name %s" % name)

    def ev_Name(self, e, st):
        if self.spec and e.id in self.spec_env:
            yield st, self.spec_env[e.id]
            return
        yield st, self.lookup_name(st, e.id)

    def _elts(self, e, st):
        """elements of a tuple / list display; `*seq` splices the items of a sequence with a concrete spine"""
        plain = [a.value if isinstance(a, ast.Starred) else a for a in e.elts]
        for st1, vs in self.eval_seq(plain, st):
            if isinstance(vs, Raise):
                yield st1, vs
                continue
            out = []
            for a, v in zip(e.elts, vs):
                if isinstance(a, ast.Starred):
                    items = self.lib.concrete_items(self, st1, v)
                    if items is None:
                        raise Unsupported("starred expression over a value whose items are not concrete")
                    out.extend(items)
                else:
                    out.append(v)
            yield st1, out

    def ev_Tuple(self, e, st):
        for st1, vs in self._elts(e, st):
            yield st1, (vs if isinstance(vs, Raise) else tuple(vs))

    def ev_List(self, e, st):
        for st1, vs in self._elts(e, st):
            yield st1, (vs if isinstance(vs, Raise) else st1.new_list(vs))

    def ev_Dict(self, e, st):
        for st1, ks in self.eval_seq([k for k in e.keys], st):
            if isinstance(ks, Raise):
                yield st1, ks
                continue
            for st2, vs in self.eval_seq(e.values, st1):
                if isinstance(vs, Raise):
                    yield st2, vs
                    continue
                d = {}
                for k, v in zip(ks, vs):
                    if is_sym(k):
                        raise Unsupported("dict literal with symbolic key")
                    d[k] = v
                yield st2, st2.new_dict(d)

    def ev_Lambda(self, e, st):
        fr = st.frames[-1]
        # closure: snapshot of the enclosing variables (values are immutable or heap handles)
        f = FuncVal(e, fr.func.module if fr.func else getattr(self, "loading_module", None), "<lambda>",
                    (dict(fr.locals), fr.closure), None)
        yield st, f

    def ev_JoinedStr(self, e, st):
        parts = [v.value if isinstance(v, ast.FormattedValue) else v for v in e.values]
        for st1, vs in self.eval_seq(parts, st):
            if isinstance(vs, Raise):
                yield st1, vs
                continue
            out = []
            ok = True
            for node, v in zip(e.values, vs):
                if isinstance(node, ast.Constant):
                    out.append(v)
                else:
                    s = self.lib.to_str(self, st1, v, node.format_spec)
                    out.append(s)
            yield st1, self.lib.str_concat(self, out)

    def ev_IfExp(self, e, st):
        if self.spec:
            (_, c), = self.eval(e.test, st)
            (_, a), = self.eval(e.body, st)
            (_, b), = self.eval(e.orelse, st)
            c = self.truth(st, c)
            if isinstance(c, bool):
                yield st, (a if c else b)
            else:
                yield st, self.lib.ite_value(c.term, a, b)
            return
        for st1, c in self.eval(e.test, st):
            if isinstance(c, Raise):
                yield st1, c
                continue
            for st2, b in self.branch(st1, self.truth(st1, c)):
                yield from self.eval(e.body if b else e.orelse, st2)

    def ev_BoolOp(self, e, st):
        is_and = isinstance(e.op, ast.And)
        if self.spec:
            ts = []
            for x in e.values:
                (_, v), = self.eval(x, st)
                v = self.truth(st, v)
                ts.append(tm.Bool(v) if isinstance(v, bool) else v.term)
            t = tm.And(*ts) if is_and else tm.Or(*ts)
            yield st, as_value("bool", t)
            return
        yield from self._boolop(e.values, is_and, st)

    def _boolop(self, values, is_and, st):
        for st1, v in self.eval(values[0], st):
            if isinstance(v, Raise) or len(values) == 1:
                yield st1, v
                continue
            for st2, b in self.branch(st1, self.truth(st1, v)):
                if b == is_and:
                    yield from self._boolop(values[1:], is_and, st2)
                else:
                    # short circuit: value of the expression is v itself
                    yield st2, (v if not isinstance(v, (Sym, JVal)) or kind_of(v) != "bool" else (not is_and))

    def ev_UnaryOp(self, e, st):
        for st1, v in self.eval(e.operand, st):
            if isinstance(v, Raise):
                yield st1, v
                continue
            if isinstance(e.op, ast.Not):
                t = self.truth(st1, v)
                yield st1, ((not t) if isinstance(t, bool) else as_value("bool", tm.Not(t.term)))
            elif isinstance(e.op, ast.USub):
                if isinstance(v, Sym) and v.kind == "int":
                    yield st1, Sym("int", tm.Neg(v.term))
                elif isinstance(v, (int,)):
                    yield st1, -v
                else:
                    raise Unsupported("unary minus on %r" % (v,))
            else:
                raise Unsupported("unary op")

    def ev_BinOp(self, e, st):
        for st1, vs in self.eval_seq([e.left, e.right], st):
            if isinstance(vs, Raise):
                yield st1, vs
                continue
            yield from self.lib.binop(self, st1, e.op, vs[0], vs[1])

    def ev_Compare(self, e, st):
        operands = [e.left] + list(e.comparators)
        if self.spec:
            vals = []
            for x in operands:
                (_, v), = self.eval(x, st)
                vals.append(v)
            ts = []
            for op, a, b in zip(e.ops, vals, vals[1:]):
                r = self.lib.compare_total(self, st, op, a, b)
                ts.append(tm.Bool(r) if isinstance(r, bool) else r.term)
            yield st, as_value("bool", tm.And(*ts))
            return
        yield from self._compare(operands, list(e.ops), st, None)

    def _compare(self, operands, ops, st, left):
        # chained comparison with short circuit
        if left is None:
            for st1, v in self.eval(operands[0], st):
                if isinstance(v, Raise):
                    yield st1, v
                else:
                    yield from self._compare(operands[1:], ops, st1, (v,))
            return
        for st1, r in self.eval(operands[0], st):
            if isinstance(r, Raise):
                yield st1, r
                continue
            for st2, res in self.lib.compare(self, st1, ops[0], left[0], r):
                if isinstance(res, Raise) or len(ops) == 1:
                    yield st2, res
                    continue
                for st3, b in self.branch(st2, self.truth(st2, res)):
                    if not b:
                        yield st3, False
                    else:
                        yield from self._compare(operands[1:], ops[1:], st3, (r,))

    def ev_Attribute(self, e, st):
        for st1, v in self.eval(e.value, st):
            if isinstance(v, Raise):
                yield st1, v
                continue
            yield from self.getattr(st1, v, e.attr)

    def getattr(self, st, v, name):
        if isinstance(v, Obj):
            flds = st.fields(v)
            if name in flds:
                yield st, flds[name]
                return
            a, owner = v.cls.lookup(name)
            if a is None:
                r = self.lib.obj_attr(self, st, v, name)
                if r is not None:
                    yield from r
                    return
                if self.spec:
                    raise Unsupported("spec: no attribute %s on %s" % (name, v.cls.name))
                if v.cls.node is None and not is_exc_class(v.cls):
                    # an object of an EXTERNAL class (library model): an attribute the model lacks is a gap of the model,
                    # not an AttributeError of the program
                    raise Unsupported("attribute %s of the external %s is not modelled" % (name, v.cls.qualname))
                if v.oid in PARTIAL_OIDS:
                    # an object described by a contract's spec: only the declared fields are known; an attribute the
                    # spec does not mention may well exist on the real object (e.g. one added to __init__ later)
                    raise Unsupported("attribute %s of %s is not described by the contract (self_spec / parameter spec)"
                                      % (name, v.cls.name))
                yield st, Raise(make_exc(st, "AttributeError", "%s has no attribute %s" % (v.cls.name, name)))
                return
            if isinstance(a, FuncVal):
                if a.kind == "property":
                    yield from self.call(st, a, [v], {})
                elif a.kind == "static":
                    yield st, a
                elif a.kind == "class":
                    yield st, BoundMethod(a, v.cls)
                else:
                    yield st, BoundMethod(a, v)
            else:
                yield st, a
            return
        if isinstance(v, ClassVal):
            if v.pycls is not None and isinstance(v.pycls, type) and issubclass(v.pycls, enum.Enum):
                try:
                    yield st, getattr(v.pycls, name)
                except AttributeError:
                    yield st, Raise(make_exc(st, "AttributeError", name))
                return
            a, owner = v.lookup(name)
            if a is None:
                r = self.lib.class_attr(self, st, v, name)
                if r is not None:
                    yield st, r
                    return
                yield st, Raise(make_exc(st, "AttributeError", "%s.%s" % (v.name, name)))
                return
            if isinstance(a, FuncVal) and a.kind == "class":
                yield st, BoundMethod(a, v)
            else:
                yield st, a
            return
        if isinstance(v, ModuleVal):
            if name in v.env:
                yield st, v.env[name]
            else:
                yield st, self.lib.library_attr(self, v.name, name)
            return
        if isinstance(v, enum.Enum):
            if name in ("name", "value", "netvalue"):
                yield st, getattr(v, name)
                return
            raise Unsupported("enum attribute %s" % name)
        if isinstance(v, Opaque):
            if name in v.attrs:
                yield st, v.attrs[name]
                return
            if v.attrs.get("__noattr__"):
                yield st, Raise(make_exc(st, "AttributeError", "object has no attribute '%s'" % name))
                return
            r = self.lib.opaque_attr(self, st, v, name)
            yield st, r
            return
        if v is None:
            if self.spec:
                raise Unsupported("spec: attribute %s of None" % name)
            yield st, Raise(make_exc(st, "AttributeError", "'NoneType' object has no attribute '%s'" % name))
            return
        # builtin kinds
        yield st, MethodRef(v, name)

    def ev_Subscript(self, e, st):
        for st1, v in self.eval(e.value, st):
            if isinstance(v, Raise):
                yield st1, v
                continue
            if isinstance(e.slice, ast.Slice):
                parts = [e.slice.lower, e.slice.upper, e.slice.step]
                present = [p for p in parts if p is not None]
                for st2, vs in self.eval_seq(present, st1):
                    if isinstance(vs, Raise):
                        yield st2, vs
                        continue
                    it = iter(vs)
                    lo, hi, step = [next(it) if p is not None else None for p in parts]
                    if step is not None and step != 1:
                        if step == -1 and lo is None and hi is None:
                            yield from self.lib.reverse(self, st2, v)        # x[::-1]
                            continue
                        raise Unsupported("slice step")
                    yield from self.lib.slice(self, st2, v, lo, hi)
            else:
                for st2, i in self.eval(e.slice, st1):
                    if isinstance(i, Raise):
                        yield st2, i
                        continue
                    yield from self.lib.index(self, st2, v, i)

    def ev_GeneratorExp(self, e, st):
        yield st, GenExp(e, st.frames[-1])

    def ev_ListComp(self, e, st):
        yield from self.lib.listcomp(self, st, e)

    def ev_Starred(self, e, st):
        raise Unsupported("starred expression")

    def ev_Call(self, e, st):
        for st1, f in self.eval(e.func, st):
            if isinstance(f, Raise):
                yield st1, f
                continue
            if any(k.arg is None for k in e.keywords):
                raise Unsupported("**kwargs call")
            # logging calls: arguments are evaluated (exceptions inside them are real), call is a no-op
            plain = [a.value if isinstance(a, ast.Starred) else a for a in e.args]
            for st2, vs in self.eval_seq(plain + [k.value for k in e.keywords], st1):
                if isinstance(vs, Raise):
                    yield st2, vs
                    continue
                args = []
                for a, v in zip(e.args, vs[:len(e.args)]):
                    if isinstance(a, ast.Starred):
                        items = self.lib.concrete_items(self, st2, v) if hasattr(self.lib, "concrete_items") else None
                        if items is None:
                            raise Unsupported("*args with a value whose items are not concrete")
                        args.extend(items)              # f(*seq): the items of a sequence with a concrete spine
                    else:
                        args.append(v)
                kwargs = {k.arg: v for k, v in zip(e.keywords, vs[len(e.args):])}
                yield from self.call(st2, f, args, kwargs, node=e)

    def ev_NamedExpr(self, e, st):
        """(name := value)"""
        if not isinstance(e.target, ast.Name):
            raise Unsupported("walrus target")
        for st1, v in self.eval(e.value, st):
            if isinstance(v, Raise):
                yield st1, v
                continue
            for st2, o in self.assign(st1, e.target, v):
                if o[0] != "normal":
                    raise Unsupported("walrus assignment outcome")
                yield st2, v

    def ev_DictComp(self, e, st):
        """{k: v for x in <iterable with a concrete spine>} (one generator)"""
        if len(e.generators) != 1:
            raise Unsupported("dict comprehension shape")
        g = e.generators[0]
        for st1, it in self.eval(g.iter, st):
            if isinstance(it, Raise):
                yield st1, it
                continue
            items = self.lib.concrete_items(self, st1, it) if hasattr(self.lib, "concrete_items") else None
            if items is None:
                raise Unsupported("dict comprehension over a symbolic sequence")
            cur = [(st1, {})]
            for x in items:
                nxt = []
                for s2, acc in cur:
                    if isinstance(acc, Raise):
                        nxt.append((s2, acc))
                        continue
                    for s3, o in self.assign(s2, g.target, x):
                        conds = [(s3, True)]
                        for cnd in g.ifs:
                            conds = [(s5, b) for s4, ok in conds if ok for s5, c in self.eval(cnd, s4)
                                     for s5, b in self.branch(s5, self.truth(s5, c))] + [(s4, False) for s4, ok in conds if not ok]
                        for s4, ok in conds:
                            if not ok:
                                nxt.append((s4, acc))
                                continue
                            for s5, kv in self.eval_seq([e.key, e.value], s4):
                                if isinstance(kv, Raise):
                                    nxt.append((s5, kv))
                                elif is_sym(kv[0]):
                                    raise Unsupported("dict comprehension with a symbolic key")
                                else:
                                    d2 = dict(acc)
                                    d2[kv[0]] = kv[1]
                                    nxt.append((s5, d2))
                cur = nxt
            for s2, acc in cur:
                yield s2, (acc if isinstance(acc, Raise) else s2.new_dict(acc))

    # ------------------------------------------------------------------ calls
    def call(self, st, f, args, kwargs, node=None):
        if isinstance(f, Builtin):
            V.audit_kwargs(f.impl, f.name, kwargs)
            yield from f.impl(self, st, args, kwargs)
            return
        if isinstance(f, MethodRef):
            yield from self.lib.method(self, st, f.recv, f.name, args, kwargs)
            return
        if isinstance(f, BoundMethod):
            yield from self.call(st, f.func, [f.self_obj] + list(args), kwargs, node)
            return
        if isinstance(f, FuncVal):
            yield from self.call_function(st, f, args, kwargs, node)
            return
        if isinstance(f, ClassVal):
            yield from self.instantiate(st, f, args, kwargs, node)
            return
        if isinstance(f, Opaque):
            r = self.lib.call_opaque(self, st, f, args, kwargs)
            if r is not None:
                yield from r
                return
        raise Unsupported("call of %r" % (f,))

    def instantiate(self, st, cls, args, kwargs, node=None):
        if cls.pycls is not None and isinstance(cls.pycls, type) and issubclass(cls.pycls, enum.Enum):
            yield from self.lib.enum_lookup(self, st, cls, args[0])
            return
        special = self.lib.instantiate(self, st, cls, args, kwargs)
        if special is not None:
            yield from special
            return
        if is_exc_class(cls):
            init, owner = cls.lookup("__init__")
            if init is None:
                o = make_exc(st, cls, *args)
                yield st, o
                return
        o = st.new_obj(cls, {})
        init, owner = cls.lookup("__init__")
        if init is None:
            if args or kwargs:
                raise Unsupported("constructor args without __init__: %s" % cls.name)
            yield st, o
            return
        for st1, r in self.call(st, init, [o] + list(args), kwargs, node):
            yield st1, (r if isinstance(r, Raise) else o)

    def bind_args(self, f, args, kwargs, st):
        node = f.node
        a = node.args
        params = [p.arg for p in a.posonlyargs + a.args]
        if a.vararg or a.kwarg:
            raise Unsupported("*args/**kwargs in definition of %s" % f.qualname)
        bound = {}
        if len(args) > len(params):
            raise Unsupported("too many arguments for %s" % f.qualname)
        for p, v in zip(params, args):
            bound[p] = v
        kwonly = [p.arg for p in a.kwonlyargs]
        for k, v in kwargs.items():
            if k in bound or (k not in params and k not in kwonly):
                raise Unsupported("bad keyword %s for %s" % (k, f.qualname))
            bound[k] = v
        defaults = a.defaults
        for p, d in zip(params[len(params) - len(defaults):], defaults):
            if p not in bound:
                bound[p] = self.eval_default(f, d)
        for p, d in zip(kwonly, a.kw_defaults):
            if p not in bound and d is not None:
                bound[p] = self.eval_default(f, d)
        for p in params + kwonly:
            if p not in bound:
                raise Unsupported("missing argument %s for %s" % (p, f.qualname))
        return bound

    def eval_default(self, f, d):
        env = dict(f.module.env) if f.module is not None else {}
        if f.cls is not None:
            env.update(f.cls.attrs)
        return self.eval_static(d, env)

    def call_function(self, st, f, args, kwargs, node=None):
        key = self.contract_key(f)
        if key is not None and not self.spec:
            yield from self.current_verifier.apply_contract(st, f, self.contracts[key], args, kwargs, node)
            return
        yield from self.inline(st, f, args, kwargs)

    def contract_key(self, f):
        if f.module is None or not self.contracts:
            return None
        rel = os.path.relpath(f.module.path, self.repo_root) if f.module.path else f.module.name
        key = (rel, f.qualname)
        if key in self.contracts and key not in self.no_contract and not getattr(self.contracts[key], "helper", False):
            return key
        return None

    def inline(self, st, f, args, kwargs):
        if self.inline_depth > 12:
            raise Unsupported("inline depth exceeded at %s (recursion?)" % f.qualname)
        bound = self.bind_args(f, args, kwargs, st)
        if isinstance(f.node, ast.Lambda):
            fr = Frame(f, bound, f.closure)
            st.frames.append(fr)
            self.inline_depth += 1
            try:
                results = list(self.eval(f.node.body, st))
            finally:
                self.inline_depth -= 1
            for st1, v in results:
                st1.frames.pop()
                yield st1, v
            return
        fr = Frame(f, bound, f.closure)
        st.frames.append(fr)
        self.inline_depth += 1
        try:
            outs = self.exec_block(f.node.body, st)
        finally:
            self.inline_depth -= 1
        for st1, out in outs:
            st1.frames.pop()
            if out[0] == "normal":
                yield st1, None
            elif out[0] == "return":
                yield st1, out[1]
            elif out[0] == "raise":
                yield st1, Raise(out[1])
            else:
                raise Unsupported("break/continue outside loop")

    # ------------------------------------------------------------------ statements
    def exec_block(self, stmts, st):
        """Returns list of (state, outcome); outcome = ('normal',)|('return',v)|('raise',exc)|('break',)|('continue',)"""
        cur = [(st, ("normal",))]
        for s in stmts:
            nxt = []
            progressed = False
            for st1, out in cur:
                if out[0] != "normal":
                    nxt.append((st1, out))
                    continue
                progressed = True
                nxt.extend(self.exec_stmt(s, st1))
            cur = nxt
            if not progressed:
                break
        return cur

    def exec_stmt(self, s, st):
        m = getattr(self, "ex_" + type(s).__name__, None)
        if m is None:
            raise Unsupported("statement %s" % type(s).__name__)
        return m(s, st)

    def ex_Pass(self, s, st):
        return [(st, ("normal",))]

    def ex_Global(self, s, st):
        raise Unsupported("global")

    def ex_Expr(self, s, st):
        if isinstance(s.value, ast.Constant):
            return [(st, ("normal",))]
        out = []
        for st1, v in self.eval(s.value, st):
            out.append((st1, ("raise", v.exc) if isinstance(v, Raise) else ("normal",)))
        return out

    def ex_Return(self, s, st):
        if s.value is None:
            return [(st, ("return", None))]
        out = []
        for st1, v in self.eval(s.value, st):
            out.append((st1, ("raise", v.exc) if isinstance(v, Raise) else ("return", v)))
        return out

    def ex_Break(self, s, st):
        return [(st, ("break",))]

    def ex_Continue(self, s, st):
        return [(st, ("continue",))]

    def ex_Assert(self, s, st):
        out = []
        for st1, v in self.eval(s.test, st):
            if isinstance(v, Raise):
                out.append((st1, ("raise", v.exc)))
                continue
            for st2, b in self.branch(st1, self.truth(st1, v)):
                out.append((st2, ("normal",) if b else ("raise", make_exc(st2, "AssertionError"))))
        return out

    def ex_Assign(self, s, st):
        out = []
        for st1, v in self.eval(s.value, st):
            if isinstance(v, Raise):
                out.append((st1, ("raise", v.exc)))
                continue
            cur = [(st1, ("normal",))]
            for tgt in s.targets:
                nxt = []
                for st2, o in cur:
                    if o[0] != "normal":
                        nxt.append((st2, o))
                    else:
                        nxt.extend(self.assign(st2, tgt, v))
                cur = nxt
            out.extend(cur)
        return out

    def ex_AnnAssign(self, s, st):
        if s.value is None:
            return [(st, ("normal",))]
        out = []
        for st1, v in self.eval(s.value, st):
            if isinstance(v, Raise):
                out.append((st1, ("raise", v.exc)))
            else:
                out.extend(self.assign(st1, s.target, v))
        return out

    def ex_AugAssign(self, s, st):
        load = copy.copy(s.target)
        load = ast.fix_missing_locations(ast.copy_location(_as_load(s.target), s.target))
        out = []
        for st1, vs in self.eval_seq([load, s.value], st):
            if isinstance(vs, Raise):
                out.append((st1, ("raise", vs.exc)))
                continue
            for st2, r in self.lib.binop(self, st1, s.op, vs[0], vs[1]):
                if isinstance(r, Raise):
                    out.append((st2, ("raise", r.exc)))
                else:
                    out.extend(self.assign(st2, s.target, r))
        return out

    def assign(self, st, tgt, v):
        if isinstance(tgt, ast.Name):
            st.locals[tgt.id] = v
            return [(st, ("normal",))]
        if isinstance(tgt, (ast.Tuple, ast.List)):
            if is_genexp(v):
                # a, b = (f(x) for x in ...): the generator is consumed at once
                out = []
                for st1, lst in self.lib.materialise(self, st, v):
                    if isinstance(lst, Raise):
                        out.append((st1, ("raise", lst.exc)))
                    else:
                        out.extend(self.assign(st1, tgt, lst))
                return out
            if isinstance(v, PyList):
                v = tuple(st.cell(v.oid))
            if isinstance(v, tuple) and len(v) == len(tgt.elts):
                cur = [(st, ("normal",))]
                for k, t in enumerate(tgt.elts):
                    nxt = []
                    for st1, o in cur:
                        # values are immutable or shared refs; after fork use index into copied tuple is not needed
                        nxt.extend(self.assign(st1, t, v[k]) if o[0] == "normal" else [(st1, o)])
                    cur = nxt
                return cur
            raise Unsupported("unpacking of %r" % (v,))
        if isinstance(tgt, ast.Attribute):
            out = []
            for st1, o in self.eval(tgt.value, st):
                if isinstance(o, Raise):
                    out.append((st1, ("raise", o.exc)))
                    continue
                if isinstance(o, Obj):
                    st1.fields(o, write=True)[tgt.attr] = v
                elif isinstance(o, ClassVal):
                    self.lib.class_setattr(self, st1, o, tgt.attr, v)
                else:
                    raise Unsupported("attribute assignment on %r" % (o,))
                out.append((st1, ("normal",)))
            return out
        if isinstance(tgt, ast.Subscript):
            out = []
            for st1, vs in self.eval_seq([tgt.value, tgt.slice], st):
                if isinstance(vs, Raise):
                    out.append((st1, ("raise", vs.exc)))
                    continue
                for st2, r in self.lib.setitem(self, st1, vs[0], vs[1], v):
                    out.append((st2, ("raise", r.exc) if isinstance(r, Raise) else ("normal",)))
            return out
        raise Unsupported("assignment target %s" % type(tgt).__name__)

    def ex_If(self, s, st):
        out = []
        for st1, c in self.eval(s.test, st):
            if isinstance(c, Raise):
                out.append((st1, ("raise", c.exc)))
                continue
            for st2, b in self.branch(st1, self.truth(st1, c)):
                out.extend(self.exec_block(s.body if b else s.orelse, st2))
        return out

    def ex_Raise(self, s, st):
        if s.exc is None:
            exc = st.handling
            if exc is None:
                raise Unsupported("bare raise outside handler")
            return [(st, ("raise", exc))]
        out = []
        for st1, v in self.eval(s.exc, st):
            if isinstance(v, Raise):
                out.append((st1, ("raise", v.exc)))
                continue
            if isinstance(v, ClassVal):
                for st2, o in self.instantiate(st1, v, [], {}):
                    out.append((st2, ("raise", o.exc if isinstance(o, Raise) else o)))
                continue
            if not isinstance(v, Obj):
                raise Unsupported("raise of %r" % (v,))
            out.append((st1, ("raise", v)))
        return out

    def ex_FunctionDef(self, s, st):
        fr = st.frames[-1]
        f = FuncVal(s, fr.func.module if fr.func else None, (fr.func.qualname + "." if fr.func else "") + s.name,
                    (dict(fr.locals), fr.closure), None)
        st.locals[s.name] = f
        return [(st, ("normal",))]

    def ex_Try(self, s, st):
        results = []
        body_outs = self.exec_block(s.body, st)
        after_handlers = []
        for st1, out in body_outs:
            if out[0] == "raise":
                exc = out[1]
                handled = False
                for h in s.handlers:
                    if h.type is None:
                        match = True
                    else:
                        cls = self.eval_static_in(st1, h.type)
                        match = exc_matches(exc, cls)
                    if match:
                        handled = True
                        if h.name:
                            st1.locals[h.name] = exc
                        prev = st1.handling
                        st1.handling = exc
                        for st2, o2 in self.exec_block(h.body, st1):
                            st2.handling = prev
                            if h.name and h.name in st2.locals:
                                del st2.locals[h.name]
                            after_handlers.append((st2, o2))
                        break
                if not handled:
                    after_handlers.append((st1, out))
            elif out[0] == "normal" and s.orelse:
                after_handlers.extend(self.exec_block(s.orelse, st1))
            else:
                after_handlers.append((st1, out))
        if not s.finalbody:
            return after_handlers
        for st1, out in after_handlers:
            for st2, o2 in self.exec_block(s.finalbody, st1):
                if o2[0] == "normal":
                    results.append((st2, out))          # pending outcome resumes
                else:
                    results.append((st2, o2))           # finally overrides (CPython semantics)
        return results

    def eval_static_in(self, st, e):
        res = list(self.eval(e, st))
        if len(res) != 1 or isinstance(res[0][1], Raise):
            raise Unsupported("handler type expression")
        return res[0][1]

    def ex_With(self, s, st):
        return self.lib.with_stmt(self, st, s)

    def ex_While(self, s, st):
        return self.current_verifier.exec_loop(self, st, s)

    def ex_For(self, s, st):
        return self.current_verifier.exec_loop(self, st, s)

    def ex_Delete(self, s, st):
        for t in s.targets:
            if isinstance(t, ast.Name):
                st.locals.pop(t.id, None)
            else:
                raise Unsupported("del of non-name")
        return [(st, ("normal",))]

    def ex_Import(self, s, st):
        self.do_import(s, st.locals, st.frames[-1].func.module)
        return [(st, ("normal",))]

    ex_ImportFrom = ex_Import


def _as_load(node):
    n = copy.deepcopy(node)
    for x in ast.walk(n):
        if hasattr(x, "ctx"):
            x.ctx = ast.Load()
    return n

"""SMT term layer of pyvc.

Terms are immutable, hash-consed trees.  Two back ends consume them:
  * to_smt()    -> standard SMT-LIB 2.6 text (cvc5 / z3 4.8 / z3 5.1 command line)
  * to_z3()     -> z3 Python AST (in-process first attempt + model extraction)
Only light, obviously-sound simplification is done (constant folding, neutral elements).
"""
import itertools

INT, BOOL, STR = "Int", "Bool", "String"
BYTES = "(Seq Int)"
J = "J"                       # uninterpreted sort of JSON values


def SeqOf(s):
    return "(Seq %s)" % s


def ArrayOf(i, e):
    return "(Array %s %s)" % (i, e)


def seq_elem(sort):
    assert sort.startswith("(Seq "), sort
    return sort[5:-1]


def array_sorts(sort):
    assert sort.startswith("(Array "), sort
    inner = sort[7:-1]
    depth = 0
    for k, ch in enumerate(inner):
        if ch == "(":
            depth += 1
        elif ch == ")":
            depth -= 1
        elif ch == " " and depth == 0:
            return inner[:k], inner[k + 1:]
    raise ValueError(sort)


class T:
    __slots__ = ("op", "args", "sort", "val", "_h")
    _table = {}

    def __new__(cls, op, args, sort, val=None):
        key = (op, args, sort, val if not isinstance(val, (list, dict)) else repr(val))
        t = T._table.get(key)
        if t is None:
            t = object.__new__(cls)
            t.op, t.args, t.sort, t.val = op, args, sort, val
            t._h = hash(key)
            T._table[key] = t
        return t

    def __hash__(self):
        return self._h

    def __eq__(self, o):
        return self is o

    def __deepcopy__(self, memo):
        return self

    def __copy__(self):
        return self

    def __repr__(self):
        s = to_smt(self)
        return s if len(s) < 400 else s[:400] + "..."

    @property
    def is_const(self):
        return self.op in ("int", "bool", "str")


# ---------------------------------------------------------------- uninterpreted functions
class FunDecl:
    registry = {}

    def __init__(self, name, argsorts, ressort):
        self.name, self.argsorts, self.ressort = name, tuple(argsorts), ressort
        old = FunDecl.registry.get(name)
        assert old is None or (old.argsorts, old.ressort) == (self.argsorts, ressort), name
        FunDecl.registry[name] = self

    def __call__(self, *args):
        assert len(args) == len(self.argsorts), (self.name, args)
        for a, s in zip(args, self.argsorts):
            assert a.sort == s, (self.name, a.sort, s)
        return T("uf", (self.name,) + tuple(args), self.ressort)

    def __deepcopy__(self, memo):
        return self


_fresh = itertools.count()


def fresh_name(prefix):
    return "%s!%d" % (prefix, next(_fresh))


def Const(name, sort):
    return T("const", (), sort, name)


def Fresh(prefix, sort):
    return Const(fresh_name(prefix), sort)


def Int(v):
    return T("int", (), INT, int(v))


def Bool(v):
    return T("bool", (), BOOL, bool(v))


def Str(v):
    return T("str", (), STR, str(v))


TRUE, FALSE = Bool(True), Bool(False)


def BoundVar(name, sort):
    return T("bvar", (), sort, name)


# ---------------------------------------------------------------- boolean
def Not(a):
    if a.op == "bool":
        return Bool(not a.val)
    if a.op == "not":
        return a.args[0]
    return T("not", (a,), BOOL)


def And(*xs):
    out = []
    for x in xs:
        if isinstance(x, (list, tuple)):
            x = And(*x)
        if x.op == "bool":
            if not x.val:
                return FALSE
            continue
        if x.op == "and":
            out.extend(x.args)
        else:
            out.append(x)
    seen, res = set(), []
    for x in out:
        if x not in seen:
            seen.add(x)
            res.append(x)
    if not res:
        return TRUE
    if len(res) == 1:
        return res[0]
    return T("and", tuple(res), BOOL)


def Or(*xs):
    out = []
    for x in xs:
        if isinstance(x, (list, tuple)):
            x = Or(*x)
        if x.op == "bool":
            if x.val:
                return TRUE
            continue
        if x.op == "or":
            out.extend(x.args)
        else:
            out.append(x)
    seen, res = set(), []
    for x in out:
        if x not in seen:
            seen.add(x)
            res.append(x)
    if not res:
        return FALSE
    if len(res) == 1:
        return res[0]
    return T("or", tuple(res), BOOL)


def Implies(a, b):
    if a.op == "bool":
        return b if a.val else TRUE
    if b.op == "bool":
        return TRUE if b.val else Not(a)
    return T("=>", (a, b), BOOL)


def Ite(c, a, b):
    if c.op == "bool":
        return a if c.val else b
    if a is b:
        return a
    assert a.sort == b.sort, (a.sort, b.sort)
    if a.sort == BOOL:
        if a.op == "bool" and b.op == "bool":
            return c if a.val else Not(c)
    return T("ite", (c, a, b), a.sort)


def Eq(a, b):
    assert a.sort == b.sort, (a.sort, b.sort, a, b)
    if a is b:
        return TRUE
    if a.is_const and b.is_const:
        return Bool(a.val == b.val)
    if a.sort == BOOL:
        if a.op == "bool":
            return b if a.val else Not(b)
        if b.op == "bool":
            return a if b.val else Not(a)
    # seq.unit x == seq.unit y
    if a.op == "seq.unit" and b.op == "seq.unit":
        return Eq(a.args[0], b.args[0])
    return T("=", (a, b), BOOL)


def Ne(a, b):
    return Not(Eq(a, b))


def Distinct(*xs):
    return T("distinct", tuple(xs), BOOL) if len(xs) > 1 else TRUE


# ---------------------------------------------------------------- integers
def Add(*xs):
    c, rest = 0, []
    for x in xs:
        if x.op == "int":
            c += x.val
        elif x.op == "+":
            for y in x.args:
                if y.op == "int":
                    c += y.val
                else:
                    rest.append(y)
        else:
            rest.append(x)
    if not rest:
        return Int(c)
    if c:
        rest.append(Int(c))
    if len(rest) == 1:
        return rest[0]
    return T("+", tuple(rest), INT)


def Neg(a):
    if a.op == "int":
        return Int(-a.val)
    return T("-", (a,), INT)


def Sub(a, b):
    if b.op == "int":
        return Add(a, Int(-b.val))
    if a is b:
        return Int(0)
    if a.op == "int" and a.val == 0:
        return Neg(b)
    return T("-", (a, b), INT)


def Mul(a, b):
    if a.op == "int" and b.op == "int":
        return Int(a.val * b.val)
    for x, y in ((a, b), (b, a)):
        if x.op == "int":
            if x.val == 0:
                return Int(0)
            if x.val == 1:
                return y
    return T("*", (a, b), INT)


def _pydivmod(a, b):
    # SMT-LIB div/mod are Euclidean; Python's are floored.  They agree when b > 0.
    return None


def Div(a, b):
    """SMT-LIB (Euclidean) div. Equals Python // when divisor > 0."""
    if a.op == "int" and b.op == "int" and b.val > 0:
        return Int(a.val // b.val)
    if b.op == "int" and b.val == 1:
        return a
    return T("div", (a, b), INT)


def Mod(a, b):
    """SMT-LIB (Euclidean) mod. Equals Python % when divisor > 0."""
    if a.op == "int" and b.op == "int" and b.val > 0:
        return Int(a.val % b.val)
    return T("mod", (a, b), INT)


def Lt(a, b):
    if a.op == "int" and b.op == "int":
        return Bool(a.val < b.val)
    if a is b:
        return FALSE
    if a.op in ("seq.len", "str.len") and b.op == "int" and b.val <= 0:
        return FALSE            # lengths are never negative
    if b.op in ("seq.len", "str.len") and a.op == "int" and a.val < 0:
        return TRUE
    return T("<", (a, b), BOOL)


def Le(a, b):
    if a.op == "int" and b.op == "int":
        return Bool(a.val <= b.val)
    if a is b:
        return TRUE
    if b.op in ("seq.len", "str.len") and a.op == "int" and a.val <= 0:
        return TRUE             # lengths are never negative
    if a.op in ("seq.len", "str.len") and b.op == "int" and b.val < 0:
        return FALSE
    return T("<=", (a, b), BOOL)


def Gt(a, b):
    return Lt(b, a)


def Ge(a, b):
    return Le(b, a)


def Min(a, b):
    return Ite(Le(a, b), a, b)


def Max(a, b):
    return Ite(Le(a, b), b, a)


# ---------------------------------------------------------------- sequences / strings
def SeqEmpty(sort):
    if sort == STR:
        return Str("")
    return T("seq.empty", (), sort)


def SeqUnit(x):
    return T("seq.unit", (x,), SeqOf(x.sort))


def _is_empty(t):
    return t.op == "seq.empty" or (t.op == "str" and t.val == "")


def Concat(*xs):
    assert xs
    sort = xs[0].sort
    flat = []
    for x in xs:
        assert x.sort == sort, (x.sort, sort)
        if _is_empty(x):
            continue
        if x.op in ("seq.++", "str.++"):
            flat.extend(x.args)
        else:
            flat.append(x)
    # merge adjacent string literals
    if sort == STR:
        merged = []
        for x in flat:
            if merged and merged[-1].op == "str" and x.op == "str":
                merged[-1] = Str(merged[-1].val + x.val)
            else:
                merged.append(x)
        flat = merged
    if not flat:
        return SeqEmpty(sort)
    if len(flat) == 1:
        return flat[0]
    return T("str.++" if sort == STR else "seq.++", tuple(flat), sort)


def SeqLit(elems, elem_sort):
    """Sequence literal from element terms."""
    sort = SeqOf(elem_sort)
    if not elems:
        return SeqEmpty(sort)
    return Concat(*[SeqUnit(e) for e in elems])


def BytesLit(b):
    return SeqLit([Int(x) for x in b], INT)


def seq_literal_elems(t):
    """If t is a literal sequence (concat of units / empty), return list of element terms."""
    if t.op == "seq.empty":
        return []
    if t.op == "seq.unit":
        return [t.args[0]]
    if t.op == "seq.++":
        out = []
        for a in t.args:
            if a.op != "seq.unit":
                return None
            out.append(a.args[0])
        return out
    return None


LEN_ALIAS = {}      # fresh sequence constant -> its length term (fixed when the constant was introduced)


def Len(s):
    if s in LEN_ALIAS:
        return LEN_ALIAS[s]
    if s.op == "str":
        return Int(len(s.val))
    if s.op == "seq.empty":
        return Int(0)
    if s.op == "seq.unit":
        return Int(1)
    if s.op in ("seq.++", "str.++"):
        return Add(*[Len(a) for a in s.args])
    return T("str.len" if s.sort == STR else "seq.len", (s,), INT)


def Nth(s, i):
    """Element i of a sequence (unspecified when out of range)."""
    if s.sort == STR:
        return T("str.at", (s, i), STR)
    lit = seq_literal_elems(s)
    if lit is not None and i.op == "int" and 0 <= i.val < len(lit):
        return lit[i.val]
    if s.op == "seq.++" and i.op == "int" and i.val >= 0:
        # index into a leading literal prefix
        k = i.val
        for a in s.args:
            if a.op == "seq.unit":
                if k == 0:
                    return a.args[0]
                k -= 1
            else:
                break
    return T("seq.nth", (s, i), seq_elem(s.sort))


def Extract(s, off, n):
    """SMT-LIB seq.extract / str.substr semantics."""
    if n.op == "int" and n.val <= 0:
        return SeqEmpty(s.sort)
    if s.op == "str" and off.op == "int" and n.op == "int":
        if off.val < 0 or off.val >= len(s.val):
            return Str("")
        return Str(s.val[off.val:off.val + n.val])
    lit = seq_literal_elems(s) if s.sort != STR else None
    if lit is not None and off.op == "int" and n.op == "int":
        if off.val < 0 or off.val >= len(lit):
            return SeqEmpty(s.sort)
        return SeqLit(lit[off.val:off.val + n.val], seq_elem(s.sort))
    if off.op == "int" and off.val == 0 and n is Len(s):
        return s
    return T("str.substr" if s.sort == STR else "seq.extract", (s, off, n), s.sort)


def Contains(s, sub):
    return T("str.contains" if s.sort == STR else "seq.contains", (s, sub), BOOL)


def PrefixOf(p, s):
    if _is_empty(p):
        return TRUE
    return T("str.prefixof" if s.sort == STR else "seq.prefixof", (p, s), BOOL)


def SuffixOf(p, s):
    return T("str.suffixof" if s.sort == STR else "seq.suffixof", (p, s), BOOL)


def StrFromInt(i):
    if i.op == "int" and i.val >= 0:
        return Str(str(i.val))
    return T("str.from_int", (i,), STR)


def StrToInt(s):
    if s.op == "str" and s.val.isdigit() and s.val.isascii():
        return Int(int(s.val))
    return T("str.to_int", (s,), INT)


def StrReplaceAll(s, a, b):
    return T("str.replace_all", (s, a, b), STR)


def IndexOf(s, sub, start):
    return T("str.indexof" if s.sort == STR else "seq.indexof", (s, sub, start), INT)


# ---------------------------------------------------------------- arrays
def Select(a, i):
    isort, esort = array_sorts(a.sort)
    assert i.sort == isort, (i.sort, isort)
    if a.op == "store":
        if a.args[1] is i:
            return a.args[2]
        if a.args[1].is_const and i.is_const and a.args[1].val != i.val:
            return Select(a.args[0], i)
    return T("select", (a, i), esort)


def Store(a, i, v):
    isort, esort = array_sorts(a.sort)
    assert i.sort == isort and v.sort == esort, (a.sort, i.sort, v.sort)
    return T("store", (a, i, v), a.sort)


# ---------------------------------------------------------------- quantifiers
def ForAll(bvars, body):
    if body.op == "bool":
        return body
    return T("forall", (tuple(bvars), body), BOOL)


def Exists(bvars, body):
    if body.op == "bool":
        return body
    return T("exists", (tuple(bvars), body), BOOL)


def substitute(t, mapping, _memo=None):
    """Replace terms (keys, by identity) with others."""
    if _memo is None:
        _memo = {}
    if t in mapping:
        return mapping[t]
    if t in _memo:
        return _memo[t]
    if not t.args:
        return t
    if t.op in ("forall", "exists"):
        bv, body = t.args
        r = T(t.op, (bv, substitute(body, mapping, _memo)), BOOL)
    elif t.op == "uf":
        r = T("uf", (t.args[0],) + tuple(substitute(a, mapping, _memo) for a in t.args[1:]), t.sort)
    else:
        new = tuple(substitute(a, mapping, _memo) for a in t.args)
        r = rebuild(t, new)
    _memo[t] = r
    return r


_REBUILD = {}


def rebuild(t, args):
    if args == t.args:
        return t
    f = _REBUILD.get(t.op)
    if f is not None:
        return f(*args)
    return T(t.op, args, t.sort, t.val)


_REBUILD.update({
    "not": Not, "and": And, "or": Or, "=>": Implies, "ite": Ite, "=": Eq,
    "+": Add, "*": Mul, "div": Div, "mod": Mod, "<": Lt, "<=": Le,
    "seq.++": Concat, "str.++": Concat, "seq.len": Len, "str.len": Len,
    "seq.nth": Nth, "seq.extract": Extract, "str.substr": Extract, "select": Select,
    "seq.unit": SeqUnit,
})
_REBUILD["-"] = lambda *a: Neg(a[0]) if len(a) == 1 else Sub(a[0], a[1])


def subterms(t, acc=None):
    if acc is None:
        acc = set()
    if t in acc:
        return acc
    acc.add(t)
    if t.op in ("forall", "exists"):
        subterms(t.args[1], acc)
    elif t.op == "uf":
        for a in t.args[1:]:
            subterms(a, acc)
    else:
        for a in t.args:
            subterms(a, acc)
    return acc


# ---------------------------------------------------------------- SMT-LIB printer
def _esc_str(s):
    out = []
    for ch in s:
        o = ord(ch)
        if ch == '"':
            out.append('""')
        elif 32 <= o < 127 and ch != "\\":
            out.append(ch)
        else:
            out.append("\\u{%x}" % o)
    return '"' + "".join(out) + '"'


def _sym(name):
    if all(c.isalnum() or c in "_.!$@" for c in name) and not name[0].isdigit():
        return name
    return "|" + name + "|"


def to_smt(t, memo=None):
    if memo is None:
        memo = {}
    r = memo.get(t)
    if r is not None:
        return r
    op = t.op
    if op == "int":
        r = str(t.val) if t.val >= 0 else "(- %d)" % -t.val
    elif op == "bool":
        r = "true" if t.val else "false"
    elif op == "str":
        r = _esc_str(t.val)
    elif op in ("const", "bvar"):
        r = _sym(t.val)
    elif op == "seq.empty":
        r = "(as seq.empty %s)" % t.sort
    elif op == "uf":
        if len(t.args) == 1:
            r = _sym(t.args[0])
        else:
            r = "(%s %s)" % (_sym(t.args[0]), " ".join(to_smt(a, memo) for a in t.args[1:]))
    elif op in ("forall", "exists"):
        bv, body = t.args
        r = "(%s (%s) %s)" % (op, " ".join("(%s %s)" % (_sym(v.val), v.sort) for v in bv),
                              to_smt(body, memo))
    else:
        r = "(%s %s)" % (op, " ".join(to_smt(a, memo) for a in t.args))
    memo[t] = r
    return r


USORTS = {"J", "RlpVal"}        # uninterpreted sorts


def collect_decls(terms):
    consts, funs, sorts = {}, {}, set()
    seen = set()

    def walk(t):
        if t in seen:
            return
        seen.add(t)
        if t.op == "const":
            consts[t.val] = t.sort
        for us in USORTS:
            if us in t.sort.replace("(", " ").replace(")", " ").split():
                sorts.add(us)
        if t.op == "uf":
            d = FunDecl.registry[t.args[0]]
            funs[d.name] = d
            for s in d.argsorts + (d.ressort,):
                for us in USORTS:
                    if us in s.replace("(", " ").replace(")", " ").split():
                        sorts.add(us)
            for a in t.args[1:]:
                walk(a)
        elif t.op in ("forall", "exists"):
            for v in t.args[0]:
                for us in USORTS:
                    if us in v.sort.replace("(", " ").replace(")", " ").split():
                        sorts.add(us)
            walk(t.args[1])
        else:
            for a in t.args:
                walk(a)
    for t in terms:
        walk(t)
    return consts, funs, sorts


def smt_script(assertions, logic="ALL", produce_models=True, extra_funs=()):
    consts, funs, sorts = collect_decls(assertions)
    for d in extra_funs:
        funs[d.name] = d
    lines = ["(set-logic %s)" % logic]
    if produce_models:
        lines.insert(0, "(set-option :produce-models true)")
    for s in sorted(sorts):
        lines.append("(declare-sort %s 0)" % s)
    for name in sorted(funs):
        d = funs[name]
        lines.append("(declare-fun %s (%s) %s)" % (_sym(name), " ".join(d.argsorts), d.ressort))
    for name in sorted(consts):
        lines.append("(declare-fun %s () %s)" % (_sym(name), consts[name]))
    memo = {}
    for a in assertions:
        lines.append("(assert %s)" % to_smt(a, memo))
    lines.append("(check-sat)")
    return "\n".join(lines) + "\n"


# ---------------------------------------------------------------- z3 back end
_z3 = None


def z3mod():
    global _z3
    if _z3 is None:
        import z3
        _z3 = z3
    return _z3


_z3_sorts = {}


def z3_sort(sort):
    z3 = z3mod()
    s = _z3_sorts.get(sort)
    if s is not None:
        return s
    if sort == INT:
        s = z3.IntSort()
    elif sort == BOOL:
        s = z3.BoolSort()
    elif sort == STR:
        s = z3.StringSort()
    elif sort in USORTS:
        s = z3.DeclareSort(sort)
    elif sort.startswith("(Seq "):
        s = z3.SeqSort(z3_sort(seq_elem(sort)))
    elif sort.startswith("(Array "):
        i, e = array_sorts(sort)
        s = z3.ArraySort(z3_sort(i), z3_sort(e))
    else:
        raise ValueError(sort)
    _z3_sorts[sort] = s
    return s


_z3_memo = {}
_z3_funs = {}


def z3_fun(d):
    z3 = z3mod()
    f = _z3_funs.get(d.name)
    if f is None:
        f = z3.Function(d.name, *[z3_sort(s) for s in d.argsorts], z3_sort(d.ressort))
        _z3_funs[d.name] = f
    return f


def to_z3(t):
    z3 = z3mod()
    r = _z3_memo.get(t)
    if r is not None:
        return r
    op = t.op
    A = [to_z3(a) for a in t.args] if op not in ("uf", "forall", "exists") else None
    if op == "int":
        r = z3.IntVal(t.val)
    elif op == "bool":
        r = z3.BoolVal(t.val)
    elif op == "str":
        r = z3.StringVal(t.val)
    elif op in ("const", "bvar"):
        r = z3.Const(t.val, z3_sort(t.sort))
    elif op == "seq.empty":
        r = z3.Empty(z3_sort(t.sort))
    elif op == "uf":
        d = FunDecl.registry[t.args[0]]
        args = [to_z3(a) for a in t.args[1:]]
        r = z3_fun(d)(*args) if args else z3.Const(d.name, z3_sort(d.ressort))
    elif op in ("forall", "exists"):
        bv = [to_z3(v) for v in t.args[0]]
        body = to_z3(t.args[1])
        r = z3.ForAll(bv, body) if op == "forall" else z3.Exists(bv, body)
    elif op == "not":
        r = z3.Not(A[0])
    elif op == "and":
        r = z3.And(*A)
    elif op == "or":
        r = z3.Or(*A)
    elif op == "=>":
        r = z3.Implies(A[0], A[1])
    elif op == "ite":
        r = z3.If(A[0], A[1], A[2])
    elif op == "=":
        r = A[0] == A[1]
    elif op == "distinct":
        r = z3.Distinct(*A)
    elif op == "+":
        r = A[0]
        for x in A[1:]:
            r = r + x
    elif op == "-":
        r = -A[0] if len(A) == 1 else A[0] - A[1]
    elif op == "*":
        r = A[0] * A[1]
    elif op == "div":
        r = A[0] / A[1]
    elif op == "mod":
        r = A[0] % A[1]
    elif op == "<":
        r = A[0] < A[1]
    elif op == "<=":
        r = A[0] <= A[1]
    elif op in ("seq.++", "str.++"):
        r = z3.Concat(*A)
    elif op == "seq.unit":
        r = z3.Unit(A[0])
    elif op in ("seq.len", "str.len"):
        r = z3.Length(A[0])
    elif op == "seq.nth":
        r = A[0][A[1]]
    elif op == "str.at":
        r = z3.SubString(A[0], A[1], z3.IntVal(1))
    elif op in ("seq.extract", "str.substr"):
        r = z3.SubSeq(A[0], A[1], A[2])
    elif op in ("seq.contains", "str.contains"):
        r = z3.Contains(A[0], A[1])
    elif op in ("seq.prefixof", "str.prefixof"):
        r = z3.PrefixOf(A[0], A[1])
    elif op in ("seq.suffixof", "str.suffixof"):
        r = z3.SuffixOf(A[0], A[1])
    elif op in ("seq.indexof", "str.indexof"):
        r = z3.IndexOf(A[0], A[1], A[2])
    elif op == "str.from_int":
        r = z3.IntToStr(A[0])
    elif op == "str.to_int":
        r = z3.StrToInt(A[0])
    elif op == "str.from_code":
        r = z3.StrFromCode(A[0])
    elif op == "str.to_code":
        r = z3.StrToCode(A[0])
    elif op == "str.replace_all":
        # not in z3py's public API under this name in all versions; build via parse
        r = _z3_app("str.replace_all", t, A)
    elif op == "select":
        r = z3.Select(A[0], A[1])
    elif op == "store":
        r = z3.Store(A[0], A[1], A[2])
    else:
        raise ValueError("to_z3: " + op)
    _z3_memo[t] = r
    return r


def _z3_app(name, t, A):
    z3 = z3mod()
    decls = {}
    names = []
    for k, a in enumerate(A):
        n = "arg!%d" % k
        names.append(n)
        decls[n] = z3.Const(n, a.sort())
    e = z3.parse_smt2_string(
        "".join("(declare-const %s %s)" % (n, a.sort().sexpr()) for n, a in zip(names, A))
        + "(declare-const r!!! %s)(assert (= r!!! (%s %s)))" % (z3_sort(t.sort).sexpr(), name, " ".join(names)))
    app = e[0].arg(1)
    return z3.substitute(app, *[(z3.Const(n, a.sort()), a) for n, a in zip(names, A)])


# ---------------------------------------------------------------- cone-of-influence slicing
_syms_cache = {}
_NO_LINK = {"is_hex", "hexs", "unhex"}     # ubiquitous pure UFs do not link otherwise unrelated conjuncts


def symbols(t):
    """free constants and uninterpreted function names of a term"""
    r = _syms_cache.get(t)
    if r is not None:
        return r
    out = set()
    if t.op == "const":
        out.add(t.val)
    elif t.op == "uf":
        if t.args[0] not in _NO_LINK:
            if len(t.args) == 1:
                out.add(t.args[0])
            elif not t.args[0].startswith("j."):
                out.add("uf:" + t.args[0])
        for a in t.args[1:]:
            out |= symbols(a)
    elif t.op in ("forall", "exists"):
        out |= symbols(t.args[1])
    else:
        for a in t.args:
            out |= symbols(a)
    r = frozenset(out)
    _syms_cache[t] = r
    return r


def _only_defs_use(c, rest, defs, this):
    """is every other remaining fact mentioning constant c itself a definition of another constant
    (so that c only flows forward into further names)?"""
    for a, sy in rest:
        if a is this or c not in sy:
            continue
        if defs.get(a) is None:
            return False
    return True


def cone(assertions, seeds, defs=None):
    """Conjuncts of `assertions` that can matter for the seed terms.

    Plain facts are included when they share a symbol (transitively) with the seeds.  A *definition*
    (defs: fact -> name of the constant it introduced, i.e. `c = term` where c was fresh when the fact was
    assumed) is included only when its constant is wanted: an unwanted definition merely names a value and
    cannot constrain anything else (its constant occurs in no included fact)."""
    defs = defs or {}
    want = set()
    for s in seeds:
        want |= symbols(s)
    rest = [(a, symbols(a)) for a in assertions]
    if defs:
        # a definition is "pure naming" only if its constant is constrained by no other fact
        occ = {}
        for a, sy in rest:
            for x in sy:
                occ[x] = occ.get(x, 0) + 1
        defs = {a: c for a, c in defs.items() if occ.get(c, 0) <= 1 or True}
        used_elsewhere = {c for a, c in defs.items() if occ.get(c, 0) > 1}
    else:
        used_elsewhere = set()
    picked = []
    changed = True
    while changed and rest:
        changed = False
        keep = []
        for a, sy in rest:
            d = defs.get(a)
            if d is not None and d in used_elsewhere and not _only_defs_use(d, rest, defs, a):
                d = None
            if not sy:
                picked.append(a)
            elif (d is not None and d in want) or (d is None and (sy & want)):
                picked.append(a)
                if not sy <= want:
                    want |= sy
                changed = True
            else:
                keep.append((a, sy))
        rest = keep
    order = {a: i for i, a in enumerate(assertions)}
    picked.sort(key=lambda a: order[a])
    return picked


# ---------------------------------------------------------------- bounded falsification
def has_quantifier(t):
    return any(x.op in ("forall", "exists") for x in subterms(t))


def index_instances(hyps, goal, limit=6):
    """Instances of the universally quantified hypotheses (one Int binder) at the index terms of the goal: the second
    arguments of seq.nth / str.at in the goal and its skolem constants.  Instances of true universal statements are
    true, so adding them is sound; they spare the solvers the quantifier instantiation they tend to miss when the
    goal indexes a concatenation."""
    cands = []
    for t in subterms(goal):
        if t.op in ("seq.nth", "str.at") and len(t.args) == 2:
            i = t.args[1]
            if i.sort == INT and not free_bvars(i) and i not in cands:
                cands.append(i)
        elif t.op == "const" and str(t.val).startswith("sk.") and t.sort == INT and t not in cands:
            cands.append(t)
    out = []
    if not cands:
        return out
    for h in hyps:
        if h.op == "forall" and len(h.args[0]) == 1 and h.args[0][0].sort == INT:
            bv, body = h.args[0][0], h.args[1]
            for c in cands[:limit]:
                out.append(substitute(body, {bv: c}))
    return out


def bounded_instance(assertions, K=2):
    """For falsification only.  Every quantifier of the shapes
         forall i. (lo <= i < hi) => body        exists i. (lo <= i < hi) and body
    is replaced by its expansion over K indices, and  hi - lo <= K  is added as a constraint.  Under that
    constraint the expansion is EQUIVALENT to the quantifier, so any model of the result is a model of the
    original assertions.  Returns None if some quantifier has another shape."""
    bounds = []
    memo = {}
    ok = [True]
    known = {}          # terms fixed to an integer by a top-level equality (e.g. len(pin) = 8)
    for a in assertions:
        for c in (a.args if a.op == "and" else (a,)):
            if c.op == "=" and c.args[0].sort == INT:
                x, y = c.args
                if y.op == "int":
                    known[x] = y.val
                elif x.op == "int":
                    known[y] = x.val

    def rw(t):
        if t in memo:
            return memo[t]
        if not has_quantifier(t):
            memo[t] = t
            return t
        if t.op in ("forall", "exists"):
            bvs, body = t.args
            body = rw(body)
            r = None
            if len(bvs) == 1:
                i = bvs[0]
                if t.op == "forall" and body.op == "=>":
                    guard, inner = body.args
                    gconj = guard.args if guard.op == "and" else (guard,)
                    others = [c for c in gconj if not _is_range_conj(c, i)]
                    if others:
                        guard = And(*[c for c in gconj if _is_range_conj(c, i)])
                        inner = Implies(And(*others), inner)
                elif t.op == "exists" and body.op == "and":
                    gs = [c for c in body.args if _is_range_conj(c, i)]
                    guard = And(*gs)
                    inner = And(*[c for c in body.args if c not in gs])
                else:
                    guard = inner = None
                if guard is not None:
                    lohi = _range_of(guard, i)
                    if lohi is not None:
                        lo, hi = lohi
                        KK = K
                        hv = hi.val if hi.op == "int" else known.get(hi)
                        lv = lo.val if lo.op == "int" else known.get(lo)
                        if hv is not None and lv is not None and 0 <= hv - lv <= 32:
                            KK = hv - lv        # range of known size: expanded completely, no restriction
                        else:
                            bounds.append(Le(Sub(hi, lo), Int(K)))
                        parts = []
                        for k in range(KK):
                            idx = Add(lo, Int(k))
                            inst = substitute(inner, {i: idx})
                            parts.append(Implies(Lt(idx, hi), inst) if t.op == "forall" else And(Lt(idx, hi), inst))
                        r = And(*parts) if t.op == "forall" else Or(*parts)
            if r is None:
                ok[0] = False
                r = t
        elif t.op == "uf":
            r = T("uf", (t.args[0],) + tuple(rw(a) for a in t.args[1:]), t.sort)
        else:
            r = rebuild(t, tuple(rw(a) for a in t.args))
        memo[t] = r
        return r

    out = [rw(a) for a in assertions]
    if not ok[0]:
        return None
    # bounds may mention bound variables of enclosing quantifiers that were expanded: keep closed ones only
    if any(x.op == "bvar" for b in bounds for x in subterms(b)):
        return None         # nested ranges depending on an outer index: no equivalence, give up
    return bounds + out


def _is_range_conj(c, i):
    return (c.op == "<=" and c.args[1] is i) or (c.op == "<" and c.args[0] is i)


def _range_of(guard, i):
    conj = guard.args if guard.op == "and" else (guard,)
    lo = hi = None
    for c in conj:
        if c.op == "<=" and c.args[1] is i:
            lo = c.args[0]
        elif c.op == "<" and c.args[0] is i:
            hi = c.args[1]
        else:
            return None
    if lo is None or hi is None:
        return None
    return lo, hi


_free_bvar_cache = {}


def free_bvars(t):
    """bound variables occurring free in t"""
    r = _free_bvar_cache.get(t)
    if r is not None:
        return r
    if t.op == "bvar":
        r = frozenset([t])
    elif t.op in ("forall", "exists"):
        r = free_bvars(t.args[1]) - frozenset(t.args[0])
    elif t.op == "uf":
        r = frozenset().union(*[free_bvars(a) for a in t.args[1:]]) if len(t.args) > 1 else frozenset()
    elif t.args:
        r = frozenset().union(*[free_bvars(a) for a in t.args])
    else:
        r = frozenset()
    _free_bvar_cache[t] = r
    return r

"""admin/ledger_utils.py compute_app_hash (C19, first sentence): SHA-256 over the image's data areas in the parser's
order.  What "the image's data areas in address order, whatever the record sizes" means is ledgerblue's IntelHexParser
(A-HEX, assumed)."""
from .common import *
from spec.hash_ext import sha256, concat_areas, areas_of, Sha256Obj

HASHOBJ = OBJ(Sha256Obj, acc=BYTES_)


@contract("admin/ledger_utils.py", "compute_app_hash", serves=["C19"])
class ComputeAppHash(Contract):
    params = dict(path=STR_)
    result = BYTES_
    pure = True
    assumptions = ["A-HEX: IntelHexParser(path).getAreas() = the image's data areas in address order (ledgerblue, assumed)",
                   "A-HASH: hashlib.sha256 incremental interface = sha256 of the concatenation of the updates"]
    loop_locals = {0: dict(digest=HASHOBJ)}

    def inv_hashed_so_far(digest, path, i): return digest.acc == concat_areas(areas_of(path), i)
    invariants = {0: [inv_hashed_so_far]}

    def hash_of_all_areas_in_order(result, path):
        return result == sha256(concat_areas(areas_of(path), len(areas_of(path))))
    ensures = [hash_of_all_areas_in_order]
    raises = {"Exception": Exc()}      # the parser refuses the file

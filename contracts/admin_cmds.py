"""Admin commands that touch seed and PIN (C18): onboard, unlock, changepin + the device-side onboarding method."""
from pyvc import terms as tm
from pyvc.terms import INT, BYTES
from pyvc import libmodels as LM
from .common import *
from .hsm2dongle_basic import ok, pin_apdus, CMD_SEND_PIN, CMD_UNLOCK, CMD_CHANGE_PIN
from .pin import pin_policy, any_pin_policy

CMD_SEED, CMD_WIPE = 0x44, 0x07
ADMINERR = "admin.misc:AdminError"
OptionsCls = LM.ext_class("ext.Options")
def OPTS(**kw):
    base = dict(pin=NONE_, new_pin=NONE_, any_pin=BOOL_, verbose=BOOL_, no_exec=BOOL_, no_unlock=BOOL_,
                output_file_path=STR_)
    base.update(kw)
    return OBJ(OptionsCls, **base)


OPTIONS = OPTS(pin=ONEOF(NONE_, STR_))


def _seed_apdu(seed, k):
    return tm.SeqLit([tm.Int(0x80), tm.Int(CMD_SEED), k, tm.Nth(seed, k)], INT)


seed_apdus = RecSpec("seed_apdus", [BYTES], tm.SeqOf(BYTES),
                     base=lambda s: tm.SeqEmpty(tm.SeqOf(BYTES)),
                     step=lambda s, k, prev: tm.Concat(prev, tm.SeqUnit(_seed_apdu(s, k))),
                     lemma=lambda s, k, t: tm.Eq(tm.Len(t), tm.Ite(tm.Le(k, tm.Int(0)), tm.Int(0), k)))


def destructive(g):
    """how many seed / PIN / wipe / unlock / change-PIN APDUs have been sent"""
    return sel(g.cnt, CMD_SEED) + sel(g.cnt, CMD_SEND_PIN) + sel(g.cnt, CMD_WIPE) + sel(g.cnt, CMD_UNLOCK) + sel(g.cnt, CMD_CHANGE_PIN)


@contract("ledger/hsm2dongle.py", "HSM2Dongle.onboard", serves=["C18"])
class Onboard(Contract):
    self_spec = DONGLE
    params = dict(seed=BYTES_, pin=BYTES_)
    result = BOOL_
    modifies_self = dict(last_comm_exception=OPAQUE("last_comm_exception"))
    exception_serves = ("C18",)

    @only("C03")
    def pre_pin_len(pin): return len(pin) <= 254
    requires = [pre_pin_len]

    def inv_seed(i, seed, g, old):
        return (0 <= i and i <= len(seed) and len(seed) == 32 and g.log == old.g.log + seed_apdus(seed, i)
                and g.nx == old.g.nx + i and g.conn == old.g.conn and g.disc == old.g.disc)
    invariants = {0: [inv_seed]}

    def seed_then_pin_then_wipe(seed, pin, result, g, old):
        fp = bytes([len(pin)]) + pin
        return (result and len(seed) == 32 and ok(g) and g.last_resp[1] == 2
                and g.log == old.g.log + seed_apdus(seed, 32) + pin_apdus(fp, len(fp)) + [apdu_of(CMD_WIPE, b"")])
    ensures = [seed_then_pin_then_wipe]
    def x_any(g, old): return g.nx >= old.g.nx
    raises = PROPAGATE(x_any, skip=[ERR_DONGLE])
    raises[ERR_DONGLE] = Exc(args=[STR_], post=[x_any])


@contract("admin/misc.py", "ask_for_pin", serves=["C18"])
class AskForPin(Contract):
    params = dict(any_pin=BOOL_)
    result = BYTES_
    pure = True
    loop_locals = {0: dict(pin=ONEOF(NONE_, BYTES_))}
    invariants = {0: []}
    exception_serves = ("C18",)

    def typed_pin_satisfies_policy(result, any_pin):
        return ite(any_pin, any_pin_policy(result), pin_policy(result))
    ensures = [typed_pin_satisfies_policy]


@contract("admin/unlock.py", "do_unlock", serves=["C18"])
class DoUnlock(Contract):
    params = dict(options=OPTIONS, exit=BOOL_, no_exec=BOOL_, label=BOOL_)
    exception_serves = ("C18",)
    max_paths = 6000

    @only("C18")
    def unlock_only_onboarded_bootloader(mode, is_onboarded, pin, options, g, old):
        """a PIN is sent only to an onboarded device in bootloader mode, and nothing destructive before"""
        return (mode == 2 and is_onboarded and destructive(g) == destructive(old.g)
                and any_pin_policy(pin))
    at_calls = {"unlock": [unlock_only_onboarded_bootloader]}

    def carried_out(g, old):
        """normal return: exactly one unlock was sent"""
        return sel(g.cnt, CMD_UNLOCK) == sel(old.g.cnt, CMD_UNLOCK) + 1 and sel(g.cnt, CMD_SEED) == sel(old.g.cnt, CMD_SEED) \
            and sel(g.cnt, CMD_WIPE) == sel(old.g.cnt, CMD_WIPE) and sel(g.cnt, CMD_CHANGE_PIN) == sel(old.g.cnt, CMD_CHANGE_PIN)
    ensures = [carried_out]

    def x_at_most_one_unlock(g, old):
        return (sel(g.cnt, CMD_UNLOCK) <= sel(old.g.cnt, CMD_UNLOCK) + 1 and sel(g.cnt, CMD_SEED) == sel(old.g.cnt, CMD_SEED)
                and sel(g.cnt, CMD_WIPE) == sel(old.g.cnt, CMD_WIPE) and sel(g.cnt, CMD_CHANGE_PIN) == sel(old.g.cnt, CMD_CHANGE_PIN))
    raises = {ADMINERR: Exc(args=[STR_], post=[x_at_most_one_unlock]),
              ERR_RESULT: Exc(args=[INT_], post=[x_at_most_one_unlock]),
              ERR_TIMEOUT: Exc(args=[STR_], post=[x_at_most_one_unlock]),
              ERR_COMM: Exc(args=[STR_], post=[x_at_most_one_unlock]),
              ERR_DONGLE: Exc(args=[STR_], post=[x_at_most_one_unlock])}


@contract("admin/onboard.py", "do_onboard", serves=["C18"])
class DoOnboard(Contract):
    params = dict(options=OPTS(pin=ONEOF(NONE_, STR_)))
    exception_serves = ()
    max_paths = 8000
    loop_locals = {0: dict(answer=STR_)}
    cut_after = "onboard"      # the attestation set-up that follows the onboarding call is C15's subject

    # the confirmation loop: nothing destructive is sent while the operator has not answered
    def inv_nothing_sent_yet(g, old): return destructive(g) == destructive(old.g)
    invariants = {0: [inv_nothing_sent_yet]}

    @only("C18")
    def onboard_only_under_its_preconditions(mode, is_onboarded, answer, arg_seed, arg_pin, options, g, old):
        """seed, PIN and wipe go only to a device in bootloader mode that echoed (checked before), is not onboarded,
        after an explicit yes, with a fresh 32-byte random seed and a policy-compliant PIN unless any-PIN"""
        return (mode == 2 and not is_onboarded and lower(answer) == "yes" and len(arg_seed) == 32
                and destructive(g) == destructive(old.g)
                and (pin_policy(arg_pin) or (options.any_pin and any_pin_policy(arg_pin))))
    at_calls = {"onboard": [onboard_only_under_its_preconditions]}
    raises = {ADMINERR: Exc(args=[STR_]), ERR_RESULT: Exc(args=[INT_]), ERR_TIMEOUT: Exc(args=[STR_]),
              ERR_COMM: Exc(args=[STR_]), ERR_DONGLE: Exc(args=[STR_])}


@native
def lower(ip, st, s):
    from pyvc.values import to_term, Sym, is_sym
    from pyvc import libmodels as LM
    if not is_sym(s):
        return s.lower()
    return Sym("str", LM.str_lower(to_term(s)))


@contract("admin/changepin.py", "do_changepin", serves=["C18"])
class DoChangePin(Contract):
    """"PIN change send[s] only a policy-compliant PIN ... unless any-PIN was explicitly allowed"; on Ledger only to a
    device in bootloader mode; when the preconditions hold the operation is carried out (normal return => the device
    acknowledged exactly one change-PIN exchange)"""
    params = dict(options=OPTS(pin=ONEOF(NONE_, STR_), new_pin=ONEOF(NONE_, STR_)))
    exception_serves = ()
    max_paths = 8000

    @only("C18")
    def new_pin_only_if_compliant_and_in_bootloader(mode, arg_pin, options, g, old):
        return (mode == 2 and (pin_policy(arg_pin) or (options.any_pin and any_pin_policy(arg_pin)))
                and sel(g.cnt, CMD_CHANGE_PIN) == sel(old.g.cnt, CMD_CHANGE_PIN)
                and sel(g.cnt, CMD_SEED) == sel(old.g.cnt, CMD_SEED) and sel(g.cnt, CMD_WIPE) == sel(old.g.cnt, CMD_WIPE))
    at_calls = {"new_pin": [new_pin_only_if_compliant_and_in_bootloader]}

    def carried_out(g, old): return sel(g.cnt, CMD_CHANGE_PIN) >= sel(old.g.cnt, CMD_CHANGE_PIN) + 1
    ensures = [carried_out]
    raises = {ADMINERR: Exc(args=[STR_]), ERR_RESULT: Exc(args=[INT_]), ERR_TIMEOUT: Exc(args=[STR_]),
              ERR_COMM: Exc(args=[STR_]), ERR_DONGLE: Exc(args=[STR_])}


# docs/: the six documented BIP32 paths (independent of admin/pubkeys.py's own table); 0x8000002c = 44'
H = 0x80000000
DOCUMENTED_PATHS = {"btc": ("m/44'/0'/0'/0/0", (44 + H, 0 + H, 0 + H, 0, 0)), "rsk": ("m/44'/137'/0'/0/0", (44 + H, 137 + H, 0 + H, 0, 0)),
                    "mst": ("m/44'/137'/1'/0/0", (44 + H, 137 + H, 1 + H, 0, 0)), "tbtc": ("m/44'/1'/0'/0/0", (44 + H, 1 + H, 0 + H, 0, 0)),
                    "trsk": ("m/44'/1'/1'/0/0", (44 + H, 1 + H, 1 + H, 0, 0)), "tmst": ("m/44'/1'/2'/0/0", (44 + H, 1 + H, 2 + H, 0, 0))}


@native
def documented_indices(ip, st, name, k):
    return DOCUMENTED_PATHS[name][1][k]


@native
def documented_path(ip, st, name):
    return DOCUMENTED_PATHS[name][0]


@native
def uncompressed_hex_of(ip, st, device_answer_hex):
    """hex of the uncompressed encoding of the key the device answered (ecdsa from_string / to_string: uninterpreted)"""
    from pyvc import values as V
    from spec.crypto_ext import k1_key, p256_str
    from pyvc.values import to_term, as_value
    return as_value("str", V.hexs(p256_str(k1_key(V.unhex(to_term(device_answer_hex))), tm.Str("uncompressed"))))


@contract("admin/pubkeys.py", "do_get_pubkeys", serves=["C18"])
class DoGetPubkeys(Contract):
    """"the public keys written to disk are the device's keys for the six documented paths": each key is requested from
    the device for the documented path of its name, and the JSON map that is written maps each documented path to the
    uncompressed encoding of the key the device answered for it (json.dumps and the file write itself: assumed)"""
    params = dict(options=OPTS(pin=ONEOF(NONE_, STR_), output_file_path=ONEOF(NONE_, STR_)))
    exception_serves = ()
    max_paths = 20000
    assumptions = ["ecdsa VerifyingKey.from_string(curve=SECP256k1) / to_string as uninterpreted functions (a key parsed on another curve is a different value: the specification side names the secp256k1 parser)",
                   "json.dumps and the text-file writes of the export are assumed (spec/fs.py, spec/server_io.py)"]

    def asked_for_the_documented_path(arg_key_id, path_name):
        return (idx(arg_key_id, 0) == documented_indices(path_name, 0) and idx(arg_key_id, 1) == documented_indices(path_name, 1)
                and idx(arg_key_id, 2) == documented_indices(path_name, 2) and idx(arg_key_id, 3) == documented_indices(path_name, 3)
                and idx(arg_key_id, 4) == documented_indices(path_name, 4))
    at_calls = {"get_public_key": [asked_for_the_documented_path]}

    def json_map_holds_the_devices_keys(pubkeys, json_dict=None):
        if is_none(json_dict):
            return True
        return (len(json_dict) == 6
                and json_dict[documented_path("btc")] == uncompressed_hex_of(pubkeys["btc"])
                and json_dict[documented_path("rsk")] == uncompressed_hex_of(pubkeys["rsk"])
                and json_dict[documented_path("mst")] == uncompressed_hex_of(pubkeys["mst"])
                and json_dict[documented_path("tbtc")] == uncompressed_hex_of(pubkeys["tbtc"])
                and json_dict[documented_path("trsk")] == uncompressed_hex_of(pubkeys["trsk"])
                and json_dict[documented_path("tmst")] == uncompressed_hex_of(pubkeys["tmst"]))
    at_exit = [json_map_holds_the_devices_keys]
    raises = {ADMINERR: Exc(args=[STR_]), ERR_RESULT: Exc(args=[INT_]), ERR_TIMEOUT: Exc(args=[STR_]),
              ERR_COMM: Exc(args=[STR_]), ERR_DONGLE: Exc(args=[STR_])}

"""comm/cstruct.py: the two entry points that classes with an __init__ of their own reach (A-CSTRUCT, assumed: the
layout comes from executing the real class, spec/cstruct.py)."""
from .common import *
from spec.cstruct import struct_size


@contract("comm/cstruct.py", "CStruct.__init__", serves=["C08", "C07", "C15"])
class CStructInit(Contract):
    assume_only = True
    assumptions = ["A-CSTRUCT: CStruct.__init__(value, offset, little) keeps (value, offset) and raises ValueError unless "
                   "len(value) - offset >= the structure size (struct.unpack_from); fields are slices at the offsets of the real class"]
    self_spec = None
    params = dict(value=BYTES_, offset=INT_, little=BOOL_)
    pure = True
    modifies_self = dict(_offset=INT_, _little=BOOL_, _raw_value=BYTES_)

    def keeps_the_bytes(self, value, offset, little):
        return self._raw_value == value and self._offset == offset and self._little == little
    def long_enough(self, value, offset): return len(value) - offset >= struct_size(self)
    ensures = [keeps_the_bytes, long_enough]

    def too_short(self, value, offset): return len(value) - offset < struct_size(self)
    raises = {"ValueError": Exc(args=[STR_], post=[too_short])}


@contract("comm/cstruct.py", "CStruct.get_bytelength", serves=["C08", "C07", "C15"])
class CStructByteLength(Contract):
    assume_only = True
    assumptions = ["A-CSTRUCT: get_bytelength() is the size of the real class's struct"]
    params = dict(cls=RAW_ANY, little=BOOL_) if False else dict(little=BOOL_)
    result = INT_
    pure = True

    def is_the_struct_size(cls, result): return result == struct_size(cls)
    ensures = [is_the_struct_size]

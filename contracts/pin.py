"""ledger/pin.py: PIN policy and generator (C10 C18)."""
from .common import *


def alnum(c):
    return (48 <= c and c <= 57) or (65 <= c and c <= 90) or (97 <= c and c <= 122)


def alpha(c):
    return (65 <= c and c <= 90) or (97 <= c and c <= 122)


def pin_policy(p):
    """device policy: 8 alphanumeric characters, at least one letter"""
    return (len(p) == 8 and forall_int(0, len(p), lambda i: alnum(p[i])) and exists_int(0, len(p), lambda i: alpha(p[i])))


def any_pin_policy(p):
    return forall_int(0, len(p), lambda i: alnum(p[i]))


BASEPIN = REPO("ledger.pin:BasePin")


@contract("ledger/pin.py", "BasePin.is_valid", serves=["C10", "C18"])
class IsValid(Contract):
    params = dict(cls=ONEOF(REPO("ledger.pin:BasePin"), REPO("ledger.pin:FileBasedPin")), pin=BYTES_, any_pin=BOOL_)
    result = BOOL_
    pure = True

    def policy(result, pin, any_pin): return result == ite(any_pin, any_pin_policy(pin), pin_policy(pin))
    ensures = [policy]


@contract("ledger/pin.py", "BasePin.generate_pin", serves=["C10", "C18"])
class GeneratePin(Contract):
    params = dict(cls=ONEOF(REPO("ledger.pin:BasePin"), REPO("ledger.pin:FileBasedPin")))
    result = BYTES_
    pure = True
    loop_locals = {0: dict(pin=ONEOF(NONE_, STR_))}
    invariants = {0: []}        # the postcondition is the negated loop guard

    def generated_pin_is_valid(result): return pin_policy(result)
    ensures = [generated_pin_is_valid]
    assumptions = ["termination of generate_pin is probabilistic: partial correctness only"]

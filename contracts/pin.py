"""ledger/pin.py: PIN policy and generator (C10 C18)."""
from .common import *


def alnum(c):
    return (48 <= c and c <= 57) or (65 <= c and c <= 90) or (97 <= c and c <= 122)


def alpha(c):
    return (65 <= c and c <= 90) or (97 <= c and c <= 122)


def pin_policy(p):
    """device policy: 8 alphanumeric characters, at least one letter"""
    return (len(p) == 8 and forall_int(0, len(p), lambda i: alnum(p[i])) and exists_int(0, len(p), lambda i: alpha(p[i])))


def any_pin_policy(p):
    return forall_int(0, len(p), lambda i: alnum(p[i]))


BASEPIN = REPO("ledger.pin:BasePin")


@contract("ledger/pin.py", "BasePin.is_valid", serves=["C10", "C18"])
class IsValid(Contract):
    params = dict(cls=ONEOF(REPO("ledger.pin:BasePin"), REPO("ledger.pin:FileBasedPin")), pin=BYTES_, any_pin=BOOL_)
    result = BOOL_
    pure = True

    def policy(result, pin, any_pin): return result == ite(any_pin, any_pin_policy(pin), pin_policy(pin))
    ensures = [policy]


@contract("ledger/pin.py", "BasePin.generate_pin", serves=["C10", "C18"])
class GeneratePin(Contract):
    params = dict(cls=ONEOF(REPO("ledger.pin:BasePin"), REPO("ledger.pin:FileBasedPin")))
    result = BYTES_
    pure = True
    loop_locals = {0: dict(pin=ONEOF(NONE_, STR_))}
    invariants = {0: []}        # the postcondition is the negated loop guard

    def generated_pin_is_valid(result): return pin_policy(result)
    ensures = [generated_pin_is_valid]
    assumptions = ["termination of generate_pin is probabilistic: partial correctness only"]


# ---- FileBasedPin: the change state machine (C10) -------------------------------------------------------------
PINERR = "ledger.pin:PinError"
FBPIN = OBJ("ledger.pin:FileBasedPin", logger=OPAQUE("logger"), _path=STR_, _pin=BYTES_, _needs_change=BOOL_,
            _changing=BOOL_, _new_pin=ONEOF(NONE_, BYTES_))


def fs_untouched(g, old):
    return g.pinfile == old.g.pinfile and g.fs_writes == old.g.fs_writes and g.pinfile_exists == old.g.pinfile_exists


@contract("ledger/pin.py", "FileBasedPin.commit_change", serves=["C10"])
class CommitChange(Contract):
    self_spec = FBPIN
    modifies_self = dict(_pin=BYTES_, _new_pin=ONEOF(NONE_, BYTES_), _changing=BOOL_, _needs_change=BOOL_)
    ghost_frame = ["pinfile", "pinfile_exists", "fs_writes"]

    def changing_has_a_pin(self): return implies(self._changing, not is_none(self._new_pin))
    requires = [changing_has_a_pin]

    def nothing_unless_changing(self, g, old):
        if field(old.self, "_changing"):
            return True
        return fs_untouched(g, old) and self._pin == field(old.self, "_pin")
    def file_holds_exactly_the_new_pin(self, g, old):
        if field(old.self, "_changing"):
            return (g.pinfile == field(old.self, "_new_pin") and self._pin == field(old.self, "_new_pin")
                    and not self._changing and not self._needs_change and g.fs_writes == old.g.fs_writes + 1)
        return True
    ensures = [nothing_unless_changing, file_holds_exactly_the_new_pin]

    def failed_write(self, g, old):
        """I/O failure: the PIN in use is unchanged; the file is old (open failed) or truncated / partial"""
        if field(old.self, "_changing"):
            return (self._pin == field(old.self, "_pin") and self._changing
                    and (fs_untouched(g, old) or (g.fs_writes == old.g.fs_writes + 1
                                                  and prefix_of(g.pinfile, field(old.self, "_new_pin")))))
        return False
    raises = {PINERR: Exc(args=[STR_], post=[failed_write])}

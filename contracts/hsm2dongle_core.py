"""Contracts of the two functions everything else rests on (DESIGN Appendix B, C01, C04, C05, C11)."""
from .common import *


@contract("ledger/hsm2dongle.py", "HSM2Dongle._send_command",
          serves=["C01", "C03", "C04", "C05", "C09", "C10", "C11", "C13", "C15", "C17", "C18"])
class SendCommand(Contract):
    self_spec = DONGLE
    params = dict(command=INT_, data=BYTES_, timeout=INT_)
    result = BYTES_
    modifies_self = dict(last_comm_exception=OPAQUE("last_comm_exception"))

    def pre_command_is_byte(command): return 0 <= command and command < 256
    requires = [pre_command_is_byte]

    # exactly one exchange, of [CLA, command] ++ data, whatever the outcome
    def one_exchange(command, data, g, old): return ghost_step(g, old.g, apdu_of(command, data))

    def answer_returned(result, command, data, g):
        return classify(g) == K_OK and result == g.last_resp and devwf_spec(apdu_of(command, data), result)
    ensures = [one_exchange, answer_returned]

    # the four exception classes partition the non-answer outcomes (classify is a function)
    def is_err_result(exc, g): return classify(g) == K_ERR and exc.args[0] == g.last_sw
    def is_timeout(g): return classify(g) == K_TIMEOUT
    def is_comm(g): return classify(g) == K_COMM
    def is_other(g): return classify(g) == K_OTHER
    raises = {
        ERR_RESULT: Exc(args=[INT_], post=[one_exchange, is_err_result]),
        ERR_TIMEOUT: Exc(args=[STR_], post=[one_exchange, is_timeout]),
        ERR_COMM: Exc(args=[STR_], post=[one_exchange, is_comm]),
        ERR_DONGLE: Exc(args=[STR_], post=[one_exchange, is_other]),
    }


def chunks_frame(g, old):
    """at least one exchange; earlier log entries untouched; no (dis)connection"""
    return (g.nx >= old.g.nx + 1 and prefix_of(old.g.log, g.log) and len(g.log) == len(old.g.log) + (g.nx - old.g.nx)
            and prefix_of(old.g.resps, g.resps) and len(g.resps) == len(old.g.resps) + (g.nx - old.g.nx)
            and g.conn == old.g.conn and g.disc == old.g.disc)


def key_of(command, operation):
    return command * 256 + operation


@contract("ledger/hsm2dongle.py", "HSM2Dongle._send_data_in_chunks", serves=["C01", "C05", "C03", "C04"])
class SendDataInChunks(Contract):
    self_spec = DONGLE
    params = dict(command=INT_, operation=INT_, next_operations=LIST(INT_), data=BYTES_, expect_full_data=BOOL_,
                  initial_bytes=INT_, operation_name=STR_, data_description=STR_)
    result = TUPLE(BOOL_, BYTES_)
    modifies_self = dict(last_comm_exception=OPAQUE("last_comm_exception"))
    loop_locals = {0: dict(response=BYTES_)}

    def pre_bytes(command, operation, initial_bytes):
        return (0 <= command and command < 256 and 0 <= operation and operation < 256
                and 0 <= initial_bytes and initial_bytes <= 255)
    def pre_chunk_op(command, operation): return chunk_op(command, operation)
    requires = [pre_bytes, pre_chunk_op]

    # ---- loop `while not finished`
    def inv_stream(command, operation, data, offset, g, old):
        k = key_of(command, operation)
        return (0 <= offset and offset <= len(data)
                and g.stream == upd(old.g.stream, k, sel(old.g.stream, k) + data[0:offset]))
    def inv_frame(g, old, finished, command, operation):
        return (g.nx >= old.g.nx and prefix_of(old.g.log, g.log) and len(g.log) == len(old.g.log) + (g.nx - old.g.nx)
                and prefix_of(old.g.resps, g.resps) and len(g.resps) == len(old.g.resps) + (g.nx - old.g.nx)
                and g.conn == old.g.conn and g.disc == old.g.disc and implies(finished, g.nx >= old.g.nx + 1)
                and implies(g.nx >= old.g.nx + 1, g.last_cmd == command and g.last_op == operation))
    def inv_counters(offset, bytes_requested, total_bytes_sent=None):
        # total_bytes_sent is an incidental counter of the present code: constrained only while it exists
        return (0 <= bytes_requested and bytes_requested <= 255
                and (is_none(total_bytes_sent) or total_bytes_sent == offset))
    def inv_finished(finished, response, operation, next_operations, expect_full_data, data, command, g, old):
        # (stated over what the device holds, not over the function's own counters)
        k = key_of(command, operation)
        return implies(finished, response[2] != operation and response[2] in next_operations
                       and implies(expect_full_data, len(sel(g.stream, k)) - len(sel(old.g.stream, k)) >= len(data))
                       and classify(g) == K_OK and response == g.last_resp and len(response) >= 3
                       and implies(chunk_op(command, response[2]), len(response) >= 4))
    invariants = {0: [inv_stream, inv_frame, inv_counters, inv_finished]}

    # every APDU carries the chunk the device asked for: at most bytes_requested bytes, taken at `offset`
    def chunk_is_what_was_requested(arg_data, operation, data, offset, bytes_requested):
        return (len(arg_data) - 1 <= bytes_requested and arg_data[0] == operation
                and arg_data[1:] == data[offset:offset + (len(arg_data) - 1)])
    at_calls = {"_send_command": [chunk_is_what_was_requested]}

    # ---- postconditions
    def post_prefix(command, operation, data, g, old):
        """what was handed over under (command, operation) is a prefix of data, in order; nothing else
        was sent under any other key"""
        k = key_of(command, operation)
        n = len(sel(g.stream, k)) - len(sel(old.g.stream, k))
        return (0 <= n and n <= len(data)
                and g.stream == upd(old.g.stream, k, sel(old.g.stream, k) + data[0:n]))
    def post_success(result, operation, next_operations, expect_full_data, command, data, g, old):
        k = key_of(command, operation)
        return implies(result[0],
                       result[1][2] != operation and result[1][2] in next_operations
                       and len(result[1]) >= 3 and result[1] == g.last_resp and classify(g) == K_OK
                       and implies(chunk_op(command, result[1][2]), len(result[1]) >= 4)
                       and implies(expect_full_data, sel(g.stream, k) == sel(old.g.stream, k) + data))
    def post_failure(result, operation, next_operations, expect_full_data, g, old, command, data):
        k = key_of(command, operation)
        return implies(not result[0],
                       classify(g) == K_OK and result[1] == g.last_resp and
                       (not (result[1][2] == operation or result[1][2] in next_operations)
                        or (expect_full_data and
                            len(sel(g.stream, k)) - len(sel(old.g.stream, k)) < len(data))))
    def post_frame(g, old, command, operation):
        return chunks_frame(g, old) and g.last_cmd == command and g.last_op == operation
    ensures = [post_prefix, post_success, post_failure, post_frame]

    # exceptions of _send_command propagate unchanged (nothing caught, nothing added)
    def x_prefix(command, operation, data, g, old):
        k = key_of(command, operation)
        n = len(sel(g.stream, k)) - len(sel(old.g.stream, k))
        return (0 <= n and n <= len(data)
                and g.stream == upd(old.g.stream, k, sel(old.g.stream, k) + data[0:n])
                and chunks_frame(g, old) and g.last_cmd == command and g.last_op == operation)
    def x_err(exc, g): return classify(g) == K_ERR and exc.args[0] == g.last_sw
    def x_timeout(g): return classify(g) == K_TIMEOUT
    def x_comm(g): return classify(g) == K_COMM
    def x_other(g): return classify(g) == K_OTHER
    raises = {
        ERR_RESULT: Exc(args=[INT_], post=[x_prefix, x_err]),
        ERR_TIMEOUT: Exc(args=[STR_], post=[x_prefix, x_timeout]),
        ERR_COMM: Exc(args=[STR_], post=[x_prefix, x_comm]),
        ERR_DONGLE: Exc(args=[STR_], post=[x_prefix, x_other]),
    }

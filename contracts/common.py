from pyvc.verify import (contract, Contract, Exc, INT_, BOOL_, STR_, BYTES_, JSON_, NONE_, LIST, CONST, OBJ, ONEOF,
                         REPO, OPAQUE, RAW, TUPLE, ENUM, OBJSEQ, PYLIST, PYDICT, JSONOV, native, RecSpec, only, NEW, FMAP)
from spec.device import *     # noqa: ghost schema, classify, ghost_step ...
import spec.btc               # noqa: A-BTC externals
import spec.fs                # noqa: A-FS externals
import spec.rlp_ext           # noqa: A-RLP / A-KECCAK externals
import spec.sorting           # noqa: sorted / map over JSON lists
import spec.server_io         # noqa: request line / json / reply socket

DONGLE = OBJ("ledger.hsm2dongle:HSM2Dongle", logger=OPAQUE("logger"), debug=BOOL_,
             last_comm_exception=NONE_, dongle=OPAQUE("dongle", opened=BOOL_))

ERR_RESULT = "ledger.hsm2dongle:HSM2DongleErrorResult"
ERR_TIMEOUT = "ledger.hsm2dongle:HSM2DongleTimeoutError"
ERR_COMM = "ledger.hsm2dongle:HSM2DongleCommError"
ERR_DONGLE = "ledger.hsm2dongle:HSM2DongleError"


# ---- exceptional behaviour shared by every dongle method that lets _send_command's exceptions through
def x_err(exc, g): return classify(g) == K_ERR and exc.args[0] == g.last_sw
def x_timeout(g): return classify(g) == K_TIMEOUT
def x_comm(g): return classify(g) == K_COMM
def x_other(g): return classify(g) == K_OTHER


def PROPAGATE(*extra, skip=()):
    d = {
        ERR_RESULT: Exc(args=[INT_], post=[x_err] + list(extra)),
        ERR_TIMEOUT: Exc(args=[STR_], post=[x_timeout] + list(extra)),
        ERR_COMM: Exc(args=[STR_], post=[x_comm] + list(extra)),
        ERR_DONGLE: Exc(args=[STR_], post=[x_other] + list(extra)),
    }
    for k in skip:
        del d[k]
    return d


def apdu_of(command, data):
    return bytes([0x80, command]) + data


def last_apdu(g):
    return g.log[len(g.log) - 1]


# ---- BIP32 paths: class invariant = exactly 5 elements (the only constructor call sites use the default
# nelements=5), each index in [0, 2^32)
ELEM = OBJ("comm.bip32:BIP32Element", _index=INT_)
PATH = OBJ("comm.bip32:BIP32Path", _elements=PYLIST(ELEM, ELEM, ELEM, ELEM, ELEM))


def idx(p, k):
    return field(field(p, "_elements")[k], "_index")


def path_wf(p):
    return (0 <= idx(p, 0) and idx(p, 0) < 4294967296 and 0 <= idx(p, 1) and idx(p, 1) < 4294967296
            and 0 <= idx(p, 2) and idx(p, 2) < 4294967296 and 0 <= idx(p, 3) and idx(p, 3) < 4294967296
            and 0 <= idx(p, 4) and idx(p, 4) < 4294967296)


def pathbin(p):
    """what the firmware parses: element count, then each index as 4 bytes little-endian"""
    return (bytes([5]) + le_bytes(idx(p, 0), 4) + le_bytes(idx(p, 1), 4) + le_bytes(idx(p, 2), 4)
            + le_bytes(idx(p, 3), 4) + le_bytes(idx(p, 4), 4))


# ---- DER signatures as the device returns them (0x30 | 0x31 quirk documented in ledger/signature.py)
def der_ok(b):
    return (len(b) >= 2 and (b[0] == 0x30 or b[0] == 0x31) and len(b) - 2 >= b[1]
            and len(b) - 2 >= 2 and b[2] == 0x02 and len(b) - 4 >= b[3]
            and len(b) - 4 - b[3] >= 2 and b[4 + b[3]] == 0x02 and len(b) - 6 - b[3] >= b[5 + b[3]])


def der_r(b):
    return b[4:4 + b[3]]


def der_s(b):
    return b[6 + b[3]:6 + b[3] + b[5 + b[3]]]


SIG = OBJ("ledger.signature:HSM2DongleSignature", _r=STR_, _s=STR_)


def monotone(g, old):
    """frame shared by every contract above exchange: the three logs only grow, in step"""
    return (g.nx >= old.g.nx and g.conn >= old.g.conn and g.disc >= old.g.disc and prefix_of(old.g.log, g.log)
            and prefix_of(old.g.resps, g.resps) and len(g.log) == len(old.g.log) + (g.nx - old.g.nx)
            and len(g.resps) == len(old.g.resps) + (g.nx - old.g.nx))

from pyvc.verify import (contract, Contract, Exc, INT_, BOOL_, STR_, BYTES_, JSON_, NONE_, LIST, CONST, OBJ, ONEOF,
                         REPO, OPAQUE, RAW, TUPLE, ENUM, OBJSEQ, native)
from spec.device import *     # noqa: ghost schema, classify, ghost_step ...

DONGLE = OBJ("ledger.hsm2dongle:HSM2Dongle", logger=OPAQUE("logger"), debug=BOOL_,
             last_comm_exception=NONE_, dongle=OPAQUE("dongle", opened=BOOL_))

ERR_RESULT = "ledger.hsm2dongle:HSM2DongleErrorResult"
ERR_TIMEOUT = "ledger.hsm2dongle:HSM2DongleTimeoutError"
ERR_COMM = "ledger.hsm2dongle:HSM2DongleCommError"
ERR_DONGLE = "ledger.hsm2dongle:HSM2DongleError"


# ---- exceptional behaviour shared by every dongle method that lets _send_command's exceptions through
def x_err(exc, g): return classify(g) == K_ERR and exc.args[0] == g.last_sw
def x_timeout(g): return classify(g) == K_TIMEOUT
def x_comm(g): return classify(g) == K_COMM
def x_other(g): return classify(g) == K_OTHER


def PROPAGATE(*extra, skip=()):
    d = {
        ERR_RESULT: Exc(args=[INT_], post=[x_err] + list(extra)),
        ERR_TIMEOUT: Exc(args=[STR_], post=[x_timeout] + list(extra)),
        ERR_COMM: Exc(args=[STR_], post=[x_comm] + list(extra)),
        ERR_DONGLE: Exc(args=[STR_], post=[x_other] + list(extra)),
    }
    for k in skip:
        del d[k]
    return d


def apdu_of(command, data):
    return bytes([0x80, command]) + data


def last_apdu(g):
    return g.log[len(g.log) - 1]

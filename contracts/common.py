from pyvc.verify import (contract, Contract, Exc, INT_, BOOL_, STR_, BYTES_, JSON_, NONE_, LIST, CONST, OBJ, ONEOF,
                         REPO, OPAQUE, RAW, TUPLE, ENUM, OBJSEQ, native)
from spec.device import *     # noqa: ghost schema, classify, ghost_step ...

DONGLE = OBJ("ledger.hsm2dongle:HSM2Dongle", logger=OPAQUE("logger"), debug=BOOL_,
             last_comm_exception=NONE_, dongle=OPAQUE("dongle", opened=BOOL_))

ERR_RESULT = "ledger.hsm2dongle:HSM2DongleErrorResult"
ERR_TIMEOUT = "ledger.hsm2dongle:HSM2DongleTimeoutError"
ERR_COMM = "ledger.hsm2dongle:HSM2DongleCommError"
ERR_DONGLE = "ledger.hsm2dongle:HSM2DongleError"

"""ledger/block_utils.py and the block-operation methods of HSM2Dongle (C05 C03 C04)."""
from pyvc import terms as tm
from .common import *
from spec import rlp_ext as RX
from spec.protocol_doc import block_named
from .hsm2dongle_basic import ok

BU = ["C05", "C03"]


@native
def decoded(ip, st, hexstr):
    from pyvc.values import to_term, unhex
    return RX.RlpValue(RX.rlp_dec(unhex(to_term(hexstr))))


@native
def nfields(ip, st, v):
    from pyvc.values import as_value
    return as_value("int", RX.rlp_len(v.term))


@native
def enc_without_last(ip, st, v, k):
    """rlp.encode(v[:-k]) (k = 0: v itself)"""
    from pyvc.values import as_value
    t = v.term if k == 0 else RX.rlp_drop(v.term, tm.Int(k))
    return as_value("bytes", RX.rlp_enc(t))


@native
def keccak_of(ip, st, b):
    from pyvc.values import to_term, as_value
    return as_value("bytes", RX.keccak(to_term(b)))


def mm_fields_dropped(n, leave_btcblock):
    """how many trailing fields are removed: blocks with 19/20 fields carry 3 merge-mining fields (the BTC header is
    kept when asked), blocks with 17/18 fields carry only the BTC header"""
    return ite(n == 19 or n == 20, ite(leave_btcblock, 2, 3), ite(leave_btcblock, 0, 1))


@contract("ledger/block_utils.py", "remove_mm_fields_if_present", serves=BU)
class RemoveMM(Contract):
    params = dict(raw_block_hex=STR_, leave_btcblock=BOOL_, hex=BOOL_)
    result = staticmethod(lambda bound: STR_ if bound["hex"] is True else BYTES_)
    pure = True
    exception_serves = ("C03", "C05")

    def reencoded_without_mm_fields(result, raw_block_hex, leave_btcblock, hex):
        v = decoded(raw_block_hex)
        n = nfields(v)
        if hex:
            return is_hex(raw_block_hex) and (n == 17 or n == 18 or n == 19 or n == 20) and is_hex(result)
        return is_hex(raw_block_hex) and (n == 17 or n == 18 or n == 19 or n == 20)
    ensures = [reencoded_without_mm_fields]
    raises = {"ValueError": Exc(args=[STR_])}      # and nothing else: whatever rlp.decode raises is converted


@contract("ledger/block_utils.py", "get_coinbase_txn", serves=BU)
class GetCoinbaseTxn(Contract):
    params = dict(raw_block_hex=STR_)
    result = STR_
    pure = True
    exception_serves = ("C03", "C05")

    def last_field_in_hex(result, raw_block_hex): return is_hex(result) and is_hex(raw_block_hex)
    ensures = [last_field_in_hex]
    raises = {"ValueError": Exc(args=[STR_])}


@contract("ledger/block_utils.py", "rlp_first_element_list_payload_length", serves=BU)
class PayloadLength(Contract):
    params = dict(bs=BYTES_)
    result = INT_
    pure = True
    exception_serves = ("C03", "C05")

    def encoding_with_complete_header(bs):
        """A-RLP shape of an encoding: non-empty, and a long-list header (0xf8..0xff) is followed by its length bytes"""
        return len(bs) >= 1 and 0 <= bs[0] and bs[0] <= 255 and implies(bs[0] >= 0xf8, len(bs) >= 1 + (bs[0] - 0xf7))
    requires = [encoding_with_complete_header]

    def inv_be(i, L, N, bs): return 0 <= L and 0 <= i and i <= N and N == bs[0] - 0xf7 and len(bs) >= 1 + N
    invariants = {0: [inv_be]}

    def nonnegative(result): return result >= 0
    def short_list(result, bs): return implies(bs[0] >= 0xc0 and bs[0] <= 0xf7, result == bs[0] - 0xc0)
    ensures = [nonnegative, short_list]
    def not_a_list(bs): return bs[0] < 0xc0
    raises = {"ValueError": Exc(args=[STR_], post=[not_a_list])}


@contract("ledger/block_utils.py", "rlp_mm_payload_size", serves=BU)
class MMPayloadSize(Contract):
    params = dict(raw_block_hex=STR_)
    result = INT_
    pure = True
    exception_serves = ("C03", "C05")
    inline_callees = ("remove_mm_fields_if_present",)

    def nonnegative(result, raw_block_hex): return result >= 0 and is_hex(raw_block_hex)
    ensures = [nonnegative]
    raises = {"ValueError": Exc(args=[STR_])}


@contract("ledger/block_utils.py", "get_block_hash", serves=BU)
class GetBlockHash(Contract):
    params = dict(raw_block_hex=STR_)
    result = STR_
    pure = True
    exception_serves = ("C03", "C05")
    inline_callees = ("remove_mm_fields_if_present",)

    def keccak_of_header_without_mm_fields(result, raw_block_hex):
        v = decoded(raw_block_hex)
        n = nfields(v)
        return (is_hex(raw_block_hex) and is_hex(result)
                and implies(n == 19 or n == 20, unhex(result) == keccak_of(enc_without_last(v, 2)))
                and implies(n == 17 or n == 18, unhex(result) == keccak_of(enc_without_last(v, 0))))
    ensures = [keccak_of_header_without_mm_fields]
    raises = {"ValueError": Exc(args=[STR_])}


@contract("comm/pow.py", "coinbase_tx_get_hash", serves=BU)
class CoinbaseHash(Contract):
    assume_only = True
    assumptions = ["coinbase_tx_get_hash: assumed contract (SHA-256 midstate code in thirdparty/sha256.py is out of reach): "
                   "returns the hex of a 32-byte hash or raises ValueError (its body is one try/except Exception)"]
    params = dict(tx_hex=STR_)
    result = STR_
    pure = True

    def hex32(result): return is_hex(result) and len(unhex(result)) == 32
    ensures = [hex32]
    raises = {"ValueError": Exc(args=[STR_])}


@contract("comm/utils.py", "keccak_256", serves=BU + ["C17"])
class Keccak256(Contract):
    assume_only = True
    assumptions = ["A-KECCAK: comm.utils.keccak_256 (pycryptodome) is a function of its argument returning 32 bytes"]
    params = dict(bs=BYTES_)
    result = BYTES_
    pure = True

    def is_keccak(result, bs): return result == keccak_of(bs) and len(result) == 32
    ensures = [is_keccak]

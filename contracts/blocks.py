"""advanceBlockchain / updateAncestorBlock (C05 C04 C03 C11)."""
from .common import *
from spec.protocol_doc import block_named, in_docset
from .hsm2dongle_basic import ok
from .hsm2dongle_state import frame_some
from .ledger_protocol import PROTO, handler_clauses, handler_raises, ci, ALLH, RES, proto_invariant

ADV_RESULT = TUPLE(BOOL_, INT_)


def adv_member(c):
    return c == 1 or c == 2 or (c <= -1 and c >= -10)


@contract("ledger/hsm2dongle.py", "HSM2Dongle.advance_blockchain", serves=["C05", "C03", "C04", "C11"])
class AdvanceBlockchain(Contract):
    assume_only = True      # TODO: verify (needs sorted/map over lists of lists)
    assumptions = ["advance_blockchain: assumed contract (not yet verified): result codes and exception classes"]
    self_spec = DONGLE
    params = dict(blocks=LIST(STR_), brothers=JSON_)
    result = ADV_RESULT
    modifies_self = dict(last_comm_exception=OPAQUE("last_comm_exception"))

    def codes(result, g, old):
        c = result[1]
        return (adv_member(c) and result[0] == (c == 1 or c == 2)
                and implies(result[0], ok(g) and g.nx > old.g.nx and g.last_cmd == 0x10
                            and ((c == 1 and g.last_resp[2] == 6) or (c == 2 and g.last_resp[2] == 5)))
                and implies(g.nx > old.g.nx and ok(g) and g.last_cmd == 0x10 and (g.last_resp[2] == 6 or g.last_resp[2] == 5), result[0])
                and implies(g.nx > old.g.nx and classify(g) == K_ERR,
                            implies(block_named(True, g.last_op, g.last_sw) == -201, c == -7)
                            and implies(block_named(True, g.last_op, g.last_sw) == -202, c == -6)
                            and implies(block_named(True, g.last_op, g.last_sw) == -204, c == -5)
                            and implies(block_named(True, g.last_op, g.last_sw) == -205, c == -9))
                and implies(g.nx > old.g.nx, ok(g) or classify(g) == K_ERR) and g.nx >= old.g.nx
                and g.conn == old.g.conn and g.disc == old.g.disc)
    ensures = [codes]

    def x_some(g, old): return g.nx >= old.g.nx + 1 and g.conn == old.g.conn and g.disc == old.g.disc
    raises = PROPAGATE(x_some, skip=[ERR_RESULT])


def upd_member(c):
    return c == 1 or (c <= -1 and c >= -8) or c == -10


@contract("ledger/hsm2dongle.py", "HSM2Dongle.update_ancestor", serves=["C05", "C03", "C04", "C11"])
class UpdateAncestor(Contract):
    assume_only = True      # TODO: verify
    assumptions = ["update_ancestor: assumed contract (not yet verified): result codes and exception classes"]
    self_spec = DONGLE
    params = dict(blocks=LIST(STR_))
    result = ADV_RESULT
    modifies_self = dict(last_comm_exception=OPAQUE("last_comm_exception"))

    def codes(result, g, old):
        c = result[1]
        return (upd_member(c) and result[0] == (c == 1)
                and implies(result[0], ok(g) and g.nx > old.g.nx and g.last_cmd == 0x30 and g.last_resp[2] == 5)
                and implies(g.nx > old.g.nx and ok(g) and g.last_cmd == 0x30 and g.last_resp[2] == 5, result[0])
                and implies(g.nx > old.g.nx and classify(g) == K_ERR,
                            implies(block_named(False, g.last_op, g.last_sw) == -201, c == -6)
                            and implies(block_named(False, g.last_op, g.last_sw) == -203, c == -7)
                            and implies(block_named(False, g.last_op, g.last_sw) == -204, c == -5))
                and implies(g.nx > old.g.nx, ok(g) or classify(g) == K_ERR) and g.nx >= old.g.nx
                and g.conn == old.g.conn and g.disc == old.g.disc)
    ensures = [codes]

    def x_some(g, old): return g.nx >= old.g.nx + 1 and g.conn == old.g.conn and g.disc == old.g.disc
    raises = PROPAGATE(x_some, skip=[ERR_RESULT])


def blocks_validated(request):
    return (jtag(request) == 6 and jhas(request, "blocks") and jtag(request["blocks"]) == 5 and jlen(request["blocks"]) > 0
            and forall_int(0, jlen(request["blocks"]), lambda i: jtag(jitem(request["blocks"], i)) == 4))


@contract("ledger/protocol.py", "HSM2ProtocolLedger._advance_blockchain", serves=ALLH + ["C05"])
class AdvanceHandler(Contract):
    self_spec = PROTO
    params = dict(request=JSON_)
    result = RES()
    modifies_self = dict(_comm_issue=BOOL_)
    exception_serves = ("C03", "C04")

    def validated(request): return blocks_validated(request) and jhas(request, "brothers")
    requires = [validated, proto_invariant]

    @only("C04", "C05")
    def success_iff_device_succeeded(result, g, old):
        return implies(not ci(old),
                       implies(result[0] == 0, ok(g) and g.last_resp[2] == 6) and implies(result[0] == 1, ok(g) and g.last_resp[2] == 5)
                       and implies(g.nx > old.g.nx and ok(g) and g.last_cmd == 0x10 and g.last_resp[2] == 6, result[0] == 0)
                       and implies(g.nx > old.g.nx and ok(g) and g.last_cmd == 0x10 and g.last_resp[2] == 5, result[0] == 1))
    @only("C04")
    def named_causes(result, g, old):
        return implies(not ci(old) and g.nx > old.g.nx and classify(g) == K_ERR,
                       implies(block_named(True, g.last_op, g.last_sw) != 0, result[0] == block_named(True, g.last_op, g.last_sw)))
    ensures = handler_clauses("advanceBlockchain") + [success_iff_device_succeeded, named_causes]
    raises = handler_raises()


@contract("ledger/protocol.py", "HSM2ProtocolLedger._update_ancestor_block", serves=ALLH + ["C05"])
class UpdateAncestorHandler(Contract):
    self_spec = PROTO
    params = dict(request=JSON_)
    result = RES()
    modifies_self = dict(_comm_issue=BOOL_)
    exception_serves = ("C03", "C04")

    def validated(request): return blocks_validated(request)
    requires = [validated, proto_invariant]

    @only("C04", "C05")
    def success_iff_device_succeeded(result, g, old):
        return implies(not ci(old),
                       implies(result[0] == 0, ok(g) and g.last_resp[2] == 5)
                       and implies(g.nx > old.g.nx and ok(g) and g.last_cmd == 0x30 and g.last_resp[2] == 5, result[0] == 0))
    @only("C04")
    def named_causes(result, g, old):
        return implies(not ci(old) and g.nx > old.g.nx and classify(g) == K_ERR,
                       implies(block_named(False, g.last_op, g.last_sw) != 0, result[0] == block_named(False, g.last_op, g.last_sw)))
    ensures = handler_clauses("updateAncestorBlock") + [success_iff_device_succeeded, named_causes]
    raises = handler_raises()

"""advanceBlockchain / updateAncestorBlock (C05 C04 C03 C11)."""
from .common import *
from spec.protocol_doc import block_named, in_docset
from .hsm2dongle_basic import ok
from .hsm2dongle_state import frame_some
from spec.requests import brothers_value_ok, brothers_ok
from .ledger_protocol import PROTO, handler_clauses, handler_raises, ci, ALLH, RES, proto_invariant

ADV_RESULT = TUPLE(BOOL_, INT_)


def adv_member(c):
    return c == 1 or c == 2 or (c <= -1 and c >= -10)


def block_frame(g, old):
    return monotone(g, old) and g.conn == old.g.conn and g.disc == old.g.disc


def no_success_yet(g, command, ops):
    """the device has not (yet) answered a header chunk with SUCCESS / PARTIAL"""
    return implies(g.last_op == 4 or g.last_op == 9,
                   g.last_resp[2] != ops.SUCCESS and (command != 0x10 or g.last_resp[2] != 5))


def first_is_init(g, old, blocks, command):
    """the first APDU of the operation announces the number of blocks (INIT = 2 for both operations)"""
    return g.log[len(old.g.log)] == apdu_of(command, bytes([2]) + be_bytes(len(blocks), 4))


@contract("ledger/hsm2dongle.py", "HSM2Dongle._do_block_operation", serves=["C05", "C03", "C04", "C11"])
class DoBlockOperation(Contract):
    """carries the loop invariants only: the function is verified inlined into its two callers, so that the
    real status-to-result tables they pass are what is checked"""
    helper = True
    modifies_self = dict(last_comm_exception=OPAQUE("last_comm_exception"))
    loop_locals = {0: dict(response=TUPLE(BOOL_, BYTES_)), 1: dict(response=TUPLE(BOOL_, BYTES_))}

    def inv_frame(g, old): return block_frame(g, old) and g.nx >= old.g.nx + 1 and ok(g)
    def inv_index(i, blocks): return 0 <= i and i <= len(blocks)
    def inv_init(g, old, blocks, command): return first_is_init(g, old, blocks, command)
    def inv_no_success(g, command, ops): return no_success_yet(g, command, ops)
    def inv_response(g, response):
        # inside a brother list the last exchange is the list metadata (op 7) or a brother chunk (op 9)
        return (len(response[1]) >= 3 and response[1] == g.last_resp and g.last_cmd == 0x10
                and (g.last_op == 7 or g.last_op == 9))
    invariants = {0: [inv_frame, inv_index, inv_init, inv_no_success],
                  1: [inv_frame, inv_init, inv_response]}     # (inside a brother list the code does not look for success)


@contract("ledger/hsm2dongle.py", "HSM2Dongle.advance_blockchain", serves=["C05", "C03", "C04", "C11"])
class AdvanceBlockchain(Contract):
    self_spec = DONGLE
    params = dict(blocks=LIST(STR_), brothers=JSON_)
    result = ADV_RESULT
    modifies_self = dict(last_comm_exception=OPAQUE("last_comm_exception"))
    inline_callees = ("HSM2Dongle._do_block_operation", "HSM2Dongle._send_block_header")
    max_paths = 20000
    exception_serves = ("C03", "C05")

    def validated(blocks, brothers):
        """what _validate_advance_blockchain has established"""
        return len(blocks) > 0 and brothers_value_ok(brothers, len(blocks))
    @only("C03")
    def memory_bound(blocks): return len(blocks) < 4294967296       # A-MEM
    requires = [validated, memory_bound]

    def codes(result, g, old):
        c = result[1]
        return (adv_member(c) and result[0] == (c == 1 or c == 2)
                and implies(result[0], ok(g) and g.nx > old.g.nx and g.last_cmd == 0x10
                            and ((c == 1 and g.last_resp[2] == 6) or (c == 2 and g.last_resp[2] == 5)))
                and implies(g.nx > old.g.nx and classify(g) == K_ERR,
                            implies(block_named(True, g.last_op, g.last_sw) == -201, c == -7)
                            and implies(block_named(True, g.last_op, g.last_sw) == -202, c == -6)
                            and implies(block_named(True, g.last_op, g.last_sw) == -204, c == -5)
                            and implies(block_named(True, g.last_op, g.last_sw) == -205, c == -9))
                and implies(g.nx > old.g.nx, ok(g) or classify(g) == K_ERR) and g.nx >= old.g.nx
                and g.conn == old.g.conn and g.disc == old.g.disc)
    @only("C05")
    def count_announced_first(blocks, g, old):
        return implies(g.nx > old.g.nx, g.log[len(old.g.log)] == apdu_of(0x10, bytes([2]) + be_bytes(len(blocks), 4)))
    @only("C05", "C04")
    def success_whenever_the_device_reports_it(result, g, old):
        """the firmware reports PARTIAL (5) / SUCCESS (6) in answer to the last chunk of a block header (or of the
        last brother; inside a brother list the code does not look at the answer's op, so only block headers are
        covered here - see DESIGN observations)"""
        return implies(g.nx > old.g.nx and ok(g) and g.last_cmd == 0x10 and g.last_op == 4
                       and (g.last_resp[2] == 5 or g.last_resp[2] == 6),
                       result[0] and result[1] == ite(g.last_resp[2] == 6, 1, 2))
    ensures = [codes, count_announced_first, success_whenever_the_device_reports_it]

    def x_some(g, old): return g.nx >= old.g.nx + 1 and g.conn == old.g.conn and g.disc == old.g.disc
    raises = PROPAGATE(x_some, skip=[ERR_RESULT, ERR_DONGLE])
    # HSM2DongleError: a link outcome outside the protocol, or the device never reporting success ("unexpected state")
    def x_device_did_not_report_success(g):
        return ((classify(g) == K_OTHER or ok(g))
                and not (ok(g) and g.last_cmd == 0x10 and g.last_op == 4
                         and (g.last_resp[2] == 5 or g.last_resp[2] == 6)))
    raises[ERR_DONGLE] = Exc(args=[STR_], post=[x_some, x_device_did_not_report_success])


def upd_member(c):
    return c == 1 or (c <= -1 and c >= -8) or c == -10


@contract("ledger/hsm2dongle.py", "HSM2Dongle.update_ancestor", serves=["C05", "C03", "C04", "C11"])
class UpdateAncestor(Contract):
    self_spec = DONGLE
    params = dict(blocks=LIST(STR_))
    result = ADV_RESULT
    modifies_self = dict(last_comm_exception=OPAQUE("last_comm_exception"))
    inline_callees = ("HSM2Dongle._do_block_operation", "HSM2Dongle._send_block_header")
    max_paths = 20000
    exception_serves = ("C03", "C05")

    def validated(blocks): return len(blocks) > 0
    @only("C03")
    def memory_bound(blocks): return len(blocks) < 4294967296       # A-MEM
    requires = [validated, memory_bound]

    def codes(result, g, old):
        c = result[1]
        return (upd_member(c) and result[0] == (c == 1)
                and implies(result[0], ok(g) and g.nx > old.g.nx and g.last_cmd == 0x30 and g.last_resp[2] == 5)
                and implies(g.nx > old.g.nx and classify(g) == K_ERR,
                            implies(block_named(False, g.last_op, g.last_sw) == -201, c == -6)
                            and implies(block_named(False, g.last_op, g.last_sw) == -203, c == -7)
                            and implies(block_named(False, g.last_op, g.last_sw) == -204, c == -5))
                and implies(g.nx > old.g.nx, ok(g) or classify(g) == K_ERR) and g.nx >= old.g.nx
                and g.conn == old.g.conn and g.disc == old.g.disc)
    @only("C05")
    def count_announced_first(blocks, g, old):
        return implies(g.nx > old.g.nx, g.log[len(old.g.log)] == apdu_of(0x30, bytes([2]) + be_bytes(len(blocks), 4)))
    @only("C05", "C04")
    def success_whenever_the_device_reports_it(result, g, old):
        return implies(g.nx > old.g.nx and ok(g) and g.last_cmd == 0x30 and g.last_op == 4 and g.last_resp[2] == 5,
                       result[0] and result[1] == 1)
    ensures = [codes, count_announced_first, success_whenever_the_device_reports_it]

    def x_some(g, old): return g.nx >= old.g.nx + 1 and g.conn == old.g.conn and g.disc == old.g.disc
    raises = PROPAGATE(x_some, skip=[ERR_RESULT, ERR_DONGLE])
    def x_device_did_not_report_success(g):
        return ((classify(g) == K_OTHER or ok(g))
                and not (ok(g) and g.last_cmd == 0x30 and g.last_op == 4 and g.last_resp[2] == 5))
    raises[ERR_DONGLE] = Exc(args=[STR_], post=[x_some, x_device_did_not_report_success])


def blocks_validated(request):
    return (jtag(request) == 6 and jhas(request, "blocks") and jtag(request["blocks"]) == 5 and jlen(request["blocks"]) > 0
            and forall_int(0, jlen(request["blocks"]), lambda i: jtag(jitem(request["blocks"], i)) == 4))


@contract("ledger/protocol.py", "HSM2ProtocolLedger._advance_blockchain", serves=ALLH + ["C05"])
class AdvanceHandler(Contract):
    self_spec = PROTO
    params = dict(request=JSON_)
    result = RES()
    modifies_self = dict(_comm_issue=BOOL_)
    exception_serves = ("C03", "C04")

    def validated(request): return blocks_validated(request) and brothers_value_ok(request["brothers"], jlen(request["blocks"])) and jhas(request, "brothers")
    requires = [validated, proto_invariant]

    @only("C04", "C05")
    def success_iff_device_succeeded(result, g, old):
        return implies(not ci(old),
                       implies(result[0] == 0, ok(g) and g.last_resp[2] == 6) and implies(result[0] == 1, ok(g) and g.last_resp[2] == 5)
                       and implies(g.nx > old.g.nx and ok(g) and g.last_cmd == 0x10 and g.last_op == 4
                                   and g.last_resp[2] == 6, result[0] == 0)
                       and implies(g.nx > old.g.nx and ok(g) and g.last_cmd == 0x10 and g.last_op == 4
                                   and g.last_resp[2] == 5, result[0] == 1))
    @only("C04")
    def named_causes(result, g, old):
        return implies(not ci(old) and g.nx > old.g.nx and classify(g) == K_ERR,
                       implies(block_named(True, g.last_op, g.last_sw) != 0, result[0] == block_named(True, g.last_op, g.last_sw)))
    ensures = handler_clauses("advanceBlockchain") + [success_iff_device_succeeded, named_causes]
    raises = handler_raises()


@contract("ledger/protocol.py", "HSM2ProtocolLedger._update_ancestor_block", serves=ALLH + ["C05"])
class UpdateAncestorHandler(Contract):
    self_spec = PROTO
    params = dict(request=JSON_)
    result = RES()
    modifies_self = dict(_comm_issue=BOOL_)
    exception_serves = ("C03", "C04")

    def validated(request): return blocks_validated(request)
    requires = [validated, proto_invariant]

    @only("C04", "C05")
    def success_iff_device_succeeded(result, g, old):
        return implies(not ci(old),
                       implies(result[0] == 0, ok(g) and g.last_resp[2] == 5)
                       and implies(g.nx > old.g.nx and ok(g) and g.last_cmd == 0x30 and g.last_op == 4
                                   and g.last_resp[2] == 5, result[0] == 0))
    @only("C04")
    def named_causes(result, g, old):
        return implies(not ci(old) and g.nx > old.g.nx and classify(g) == K_ERR,
                       implies(block_named(False, g.last_op, g.last_sw) != 0, result[0] == block_named(False, g.last_op, g.last_sw)))
    ensures = handler_clauses("updateAncestorBlock") + [success_iff_device_succeeded, named_causes]
    raises = handler_raises()

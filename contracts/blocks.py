"""advanceBlockchain / updateAncestorBlock (C05 C04 C03 C11)."""
from .common import *
from spec.protocol_doc import block_named, in_docset
from .hsm2dongle_basic import ok
from .hsm2dongle_state import frame_some
from .ledger_protocol import PROTO, handler_clauses, handler_raises, ci, ALLH, RES, proto_invariant

ADV_RESULT = TUPLE(BOOL_, INT_)


def adv_member(c):
    return c == 1 or c == 2 or (c <= -1 and c >= -10)


def block_frame(g, old):
    return monotone(g, old) and g.conn == old.g.conn and g.disc == old.g.disc


@contract("ledger/hsm2dongle.py", "HSM2Dongle._do_block_operation", serves=["C05", "C03", "C04", "C11"])
class DoBlockOperation(Contract):
    """carries the loop invariants only: the function is verified inlined into its two callers, so that the
    real status-to-result tables they pass are what is checked"""
    helper = True
    loop_locals = {0: dict(response=TUPLE(BOOL_, BYTES_)), 1: dict(response=TUPLE(BOOL_, BYTES_))}

    def inv_blocks(g, old, i, blocks):
        return block_frame(g, old) and g.nx >= old.g.nx + 1 and 0 <= i and i <= len(blocks) and ok(g)
    def inv_brothers(g, old, response):
        return (block_frame(g, old) and g.nx >= old.g.nx + 1 and ok(g)
                and len(response[1]) >= 3 and response[1] == g.last_resp and g.last_cmd == 0x10)
    invariants = {0: [inv_blocks], 1: [inv_brothers]}


@contract("ledger/hsm2dongle.py", "HSM2Dongle.advance_blockchain", serves=["C05", "C03", "C04", "C11"])
class AdvanceBlockchain(Contract):
    self_spec = DONGLE
    params = dict(blocks=LIST(STR_), brothers=JSON_)
    result = ADV_RESULT
    modifies_self = dict(last_comm_exception=OPAQUE("last_comm_exception"))
    inline_callees = ("HSM2Dongle._do_block_operation", "HSM2Dongle._send_block_header")
    max_paths = 20000
    exception_serves = ("C03", "C05")

    def validated(blocks, brothers):
        """what _validate_advance_blockchain has established"""
        return (len(blocks) > 0 and jtag(brothers) == 5 and jlen(brothers) == len(blocks)
                and forall_int(0, jlen(brothers), lambda i: jtag(jitem(brothers, i)) == 5
                               and forall_int(0, jlen(jitem(brothers, i)), lambda j: jtag(jitem(jitem(brothers, i), j)) == 4
                                              and is_hex(jstr(jitem(jitem(brothers, i), j)))
                                              and len(unhex(jstr(jitem(jitem(brothers, i), j)))) > 0)))
    @only("C03")
    def memory_bound(blocks): return len(blocks) < 4294967296       # A-MEM
    requires = [validated, memory_bound]

    def codes(result, g, old):
        c = result[1]
        return (adv_member(c) and result[0] == (c == 1 or c == 2)
                and implies(result[0], ok(g) and g.nx > old.g.nx and g.last_cmd == 0x10
                            and ((c == 1 and g.last_resp[2] == 6) or (c == 2 and g.last_resp[2] == 5)))
                and implies(g.nx > old.g.nx and classify(g) == K_ERR,
                            implies(block_named(True, g.last_op, g.last_sw) == -201, c == -7)
                            and implies(block_named(True, g.last_op, g.last_sw) == -202, c == -6)
                            and implies(block_named(True, g.last_op, g.last_sw) == -204, c == -5)
                            and implies(block_named(True, g.last_op, g.last_sw) == -205, c == -9))
                and implies(g.nx > old.g.nx, ok(g) or classify(g) == K_ERR) and g.nx >= old.g.nx
                and g.conn == old.g.conn and g.disc == old.g.disc)
    @only("C05")
    def count_announced_first(blocks, g, old):
        return implies(g.nx > old.g.nx, g.log[len(old.g.log)] == apdu_of(0x10, bytes([2]) + be_bytes(len(blocks), 4)))
    ensures = [codes, count_announced_first]

    def x_some(g, old): return g.nx >= old.g.nx + 1 and g.conn == old.g.conn and g.disc == old.g.disc
    raises = PROPAGATE(x_some, skip=[ERR_RESULT, ERR_DONGLE])
    # HSM2DongleError: a link outcome outside the protocol, or the device never reporting success ("unexpected state")
    raises[ERR_DONGLE] = Exc(args=[STR_], post=[x_some])


def upd_member(c):
    return c == 1 or (c <= -1 and c >= -8) or c == -10


@contract("ledger/hsm2dongle.py", "HSM2Dongle.update_ancestor", serves=["C05", "C03", "C04", "C11"])
class UpdateAncestor(Contract):
    self_spec = DONGLE
    params = dict(blocks=LIST(STR_))
    result = ADV_RESULT
    modifies_self = dict(last_comm_exception=OPAQUE("last_comm_exception"))
    inline_callees = ("HSM2Dongle._do_block_operation", "HSM2Dongle._send_block_header")
    max_paths = 20000
    exception_serves = ("C03", "C05")

    def validated(blocks): return len(blocks) > 0
    @only("C03")
    def memory_bound(blocks): return len(blocks) < 4294967296       # A-MEM
    requires = [validated, memory_bound]

    def codes(result, g, old):
        c = result[1]
        return (upd_member(c) and result[0] == (c == 1)
                and implies(result[0], ok(g) and g.nx > old.g.nx and g.last_cmd == 0x30 and g.last_resp[2] == 5)
                and implies(g.nx > old.g.nx and classify(g) == K_ERR,
                            implies(block_named(False, g.last_op, g.last_sw) == -201, c == -6)
                            and implies(block_named(False, g.last_op, g.last_sw) == -203, c == -7)
                            and implies(block_named(False, g.last_op, g.last_sw) == -204, c == -5))
                and implies(g.nx > old.g.nx, ok(g) or classify(g) == K_ERR) and g.nx >= old.g.nx
                and g.conn == old.g.conn and g.disc == old.g.disc)
    ensures = [codes]

    def x_some(g, old): return g.nx >= old.g.nx + 1 and g.conn == old.g.conn and g.disc == old.g.disc
    raises = PROPAGATE(x_some, skip=[ERR_RESULT, ERR_DONGLE])
    raises[ERR_DONGLE] = Exc(args=[STR_], post=[x_some])


def blocks_validated(request):
    return (jtag(request) == 6 and jhas(request, "blocks") and jtag(request["blocks"]) == 5 and jlen(request["blocks"]) > 0
            and forall_int(0, jlen(request["blocks"]), lambda i: jtag(jitem(request["blocks"], i)) == 4))


@contract("ledger/protocol.py", "HSM2ProtocolLedger._advance_blockchain", serves=ALLH + ["C05"])
class AdvanceHandler(Contract):
    self_spec = PROTO
    params = dict(request=JSON_)
    result = RES()
    modifies_self = dict(_comm_issue=BOOL_)
    exception_serves = ("C03", "C04")

    def validated(request): return blocks_validated(request) and jhas(request, "brothers")
    requires = [validated, proto_invariant]

    @only("C04", "C05")
    def success_iff_device_succeeded(result, g, old):
        return implies(not ci(old),
                       implies(result[0] == 0, ok(g) and g.last_resp[2] == 6) and implies(result[0] == 1, ok(g) and g.last_resp[2] == 5)
                       and implies(g.nx > old.g.nx and ok(g) and g.last_cmd == 0x10 and g.last_resp[2] == 6, result[0] == 0)
                       and implies(g.nx > old.g.nx and ok(g) and g.last_cmd == 0x10 and g.last_resp[2] == 5, result[0] == 1))
    @only("C04")
    def named_causes(result, g, old):
        return implies(not ci(old) and g.nx > old.g.nx and classify(g) == K_ERR,
                       implies(block_named(True, g.last_op, g.last_sw) != 0, result[0] == block_named(True, g.last_op, g.last_sw)))
    ensures = handler_clauses("advanceBlockchain") + [success_iff_device_succeeded, named_causes]
    raises = handler_raises()


@contract("ledger/protocol.py", "HSM2ProtocolLedger._update_ancestor_block", serves=ALLH + ["C05"])
class UpdateAncestorHandler(Contract):
    self_spec = PROTO
    params = dict(request=JSON_)
    result = RES()
    modifies_self = dict(_comm_issue=BOOL_)
    exception_serves = ("C03", "C04")

    def validated(request): return blocks_validated(request)
    requires = [validated, proto_invariant]

    @only("C04", "C05")
    def success_iff_device_succeeded(result, g, old):
        return implies(not ci(old),
                       implies(result[0] == 0, ok(g) and g.last_resp[2] == 5)
                       and implies(g.nx > old.g.nx and ok(g) and g.last_cmd == 0x30 and g.last_resp[2] == 5, result[0] == 0))
    @only("C04")
    def named_causes(result, g, old):
        return implies(not ci(old) and g.nx > old.g.nx and classify(g) == K_ERR,
                       implies(block_named(False, g.last_op, g.last_sw) != 0, result[0] == block_named(False, g.last_op, g.last_sw)))
    ensures = handler_clauses("updateAncestorBlock") + [success_iff_device_succeeded, named_causes]
    raises = handler_raises()

"""Request handlers of HSM2ProtocolLedger / HSM1ProtocolLedger (C01 C03 C04 C11 C13) and bring-up (C09 C10 C11)."""
from .common import *
from spec.protocol_doc import in_docset, sign_named, block_named
from .hsm2dongle_basic import ok
from .hsm2dongle_state import frame_n, frame_some, be_int
from .pin import pin_policy

PINOBJ = OBJ("ledger.pin:FileBasedPin", logger=OPAQUE("logger"), _path=STR_, _pin=BYTES_, _needs_change=BOOL_,
             _changing=BOOL_, _new_pin=ONEOF(NONE_, BYTES_))
PROTO = OBJ("ledger.protocol:HSM2ProtocolLedger", logger=OPAQUE("logger"), hsm2dongle=DONGLE, _comm_issue=BOOL_,
            pin=PINOBJ)
PERR = "comm.protocol:HSM2ProtocolError"
PINT = "comm.protocol:HSM2ProtocolInterrupt"
ALLH = ["C03", "C04", "C11", "C13"]


def ci(old):
    return field(old.self, "_comm_issue")


def proto_invariant(self):
    """invariant of the protocol object between requests: a valid PIN is loaded and no change is in progress"""
    return len(self.pin._pin) == 8 and not self.pin._changing and pin_policy(self.pin._pin)


def pin_ok(p):
    from_policy = pin_policy(p)
    return from_policy


# ---- ensure_connection ---------------------------------------------------------------------------
@contract("ledger/protocol.py", "HSM2ProtocolLedger.ensure_connection", serves=ALLH + ["C09", "C01", "C05"])
class EnsureConnection(Contract):
    self_spec = PROTO
    modifies_self = dict(_comm_issue=BOOL_)

    def pin_invariant(self):
        return len(self.pin._pin) == 8 and not self.pin._changing and pin_ok(self.pin._pin)
    requires = [pin_invariant]

    def nothing_when_no_issue(self, g, old):
        return implies(not ci(old), ghost_same_log(g, old.g) and not self._comm_issue)
    def monotone(g, old): return g.nx >= old.g.nx and g.conn >= old.g.conn and g.disc >= old.g.disc
    def repaired(self, g, old):
        """after a link failure: reconnect and complete bring-up before returning"""
        return implies(ci(old), not self._comm_issue and g.conn >= old.g.conn + 1 and g.nx >= old.g.nx + 4
                       and prefix_of(old.g.log, g.log)
                       and g.log[len(old.g.log)] == apdu_of(0x06, b"") and g.log[len(old.g.log) + 1] == apdu_of(0x43, b""))
    ensures = [nothing_when_no_issue, repaired, monotone]

    def still_pending(self, old, g):
        return ci(old) and self._comm_issue and (g.conn > old.g.conn or g.disc > old.g.disc) and g.nx >= old.g.nx
    raises = {
        ERR_COMM: Exc(args=[STR_, STR_], post=[still_pending]),
        PINT: Exc(post=[still_pending]),
    }


# ---- generic clauses of a handler --------------------------------------------------------------------
def handler_clauses(command, device_error=-905):
    @only("C04")
    def documented_code(result): return in_docset(command, result[0])
    @only("C11")
    def timeout_is_device_error(result, self, g, old):
        # a time-out ends the request with the device error and does not ask for a reconnection (unless the
        # request itself re-opened the link afterwards and that failed, as uiHeartbeat may)
        return implies(not ci(old) and g.nx > old.g.nx and classify(g) == K_TIMEOUT and g.conn == old.g.conn
                       and g.disc == old.g.disc, result[0] == device_error and not self._comm_issue)
    @only("C11")
    def link_error_is_device_error_and_flagged(result, self, g, old):
        return implies(not ci(old) and g.nx > old.g.nx and classify(g) == K_COMM,
                       result[0] == device_error and self._comm_issue)
    @only("C11")
    def failed_repair_is_device_error(result, self, g, old):
        # (a device *error status* answered during the repeated bring-up is not a failure to re-establish
        # the connection; what the handler then answers is not constrained by C11 - see DESIGN observations)
        return implies(ci(old) and self._comm_issue and (g.conn > old.g.conn or g.disc > old.g.disc)
                       and classify(g) != K_ERR, result[0] == device_error)
    @only("C03")
    def success_carries_output(result): return implies(result[0] >= 0, len(result) == 2)
    return [documented_code, timeout_is_device_error, link_error_is_device_error_and_flagged,
            failed_repair_is_device_error, success_carries_output]


def handler_raises():
    def device_outside_protocol(g, old): return ci(old) or classify(g) == K_OTHER
    def only_during_repair(old): return ci(old)
    return {PERR: Exc(args=[STR_], post=[device_outside_protocol]), PINT: Exc(post=[only_during_repair])}


REQ_KEYID = JSONOV(keyId=PATH)


def RES(**fields):
    """a handler returns (code,) on failure or (code, output) on success"""
    return ONEOF(TUPLE(INT_), TUPLE(INT_, PYDICT(**fields)))


SIGDICT = PYDICT(r=STR_, s=STR_)
HBRES = RES(pubKey=STR_, message=STR_, tweak=STR_, signature=SIGDICT)


@contract("ledger/protocol.py", "HSM2ProtocolLedger._get_pubkey", serves=ALLH)
class GetPubkey(Contract):
    self_spec = PROTO
    params = dict(request=REQ_KEYID)
    result = RES(pubKey=STR_)
    modifies_self = dict(_comm_issue=BOOL_)

    def validated(request): return jtag(request) == 6 and path_wf(request["keyId"])
    requires = [validated, proto_invariant]

    def one_query_for_the_requested_path(request, g, old):
        return implies(not ci(old), ghost_step(g, old.g, apdu_of(0x04, pathbin(request["keyId"]))))
    def success_iff_device_answered(result, g, old):
        return implies(not ci(old), (result[0] == 0) == ok(g))
    def key_verbatim(result, g):
        if len(result) == 2:
            return result[0] == 0 and result[1]["pubKey"] == hexs(g.last_resp)
        return result[0] != 0
    def device_error_status_is_invalid_keyid(result, g, old):
        return implies(not ci(old) and classify(g) == K_ERR, result[0] == -103)
    ensures = handler_clauses("getPubKey") + [one_query_for_the_requested_path, success_iff_device_answered,
                                              key_verbatim, device_error_status_is_invalid_keyid]
    raises = handler_raises()


# ---- handlers without request data ---------------------------------------------------------------------
@contract("ledger/protocol.py", "HSM2ProtocolLedger._blockchain_state", serves=ALLH)
class BlockchainState(Contract):
    self_spec = PROTO
    params = dict(request=JSON_)
    result = RES(state=PYDICT(best_block=STR_, newest_valid_block=STR_, ancestor_block=STR_, ancestor_receipts_root=STR_,
                              updating=PYDICT(best_block=STR_, newest_valid_block=STR_, next_expected_block=STR_,
                                              total_difficulty=INT_, in_progress=BOOL_, already_validated=BOOL_,
                                              found_best_block=BOOL_)))
    modifies_self = dict(_comm_issue=BOOL_)
    requires = [proto_invariant]

    def success_iff_device_answered(result, g, old):
        return implies(not ci(old), (result[0] == 0) == (ok(g) and g.nx == old.g.nx + 9))
    def fields_verbatim(result, g, old):
        if len(result) == 2:
            s = result[1]["state"]
            u = s["updating"]
            n = len(g.resps)
            return (result[0] == 0 and g.nx >= old.g.nx + 9
                    and s["best_block"] == hexs(g.resps[n - 9][4:]) and s["newest_valid_block"] == hexs(g.resps[n - 8][4:])
                    and s["ancestor_block"] == hexs(g.resps[n - 7][4:])
                    and s["ancestor_receipts_root"] == hexs(g.resps[n - 6][4:])
                    and u["best_block"] == hexs(g.resps[n - 5][4:]) and u["newest_valid_block"] == hexs(g.resps[n - 4][4:])
                    and u["next_expected_block"] == hexs(g.resps[n - 3][4:])
                    and u["total_difficulty"] == be_int(g.resps[n - 2][3:])
                    and u["in_progress"] == (g.resps[n - 1][3] != 0) and u["already_validated"] == (g.resps[n - 1][4] != 0)
                    and u["found_best_block"] == (g.resps[n - 1][5] != 0)
                    and g.log[len(g.log) - 9] == apdu_of(0x20, bytes([1, 0x01]))
                    and g.log[len(g.log) - 6] == apdu_of(0x20, bytes([1, 0x05]))
                    and g.log[len(g.log) - 3] == apdu_of(0x20, bytes([1, 0x84]))
                    and g.log[len(g.log) - 2] == apdu_of(0x20, bytes([2])) and g.log[len(g.log) - 1] == apdu_of(0x20, bytes([3])))
        return result[0] != 0
    ensures = handler_clauses("blockchainState") + [success_iff_device_answered, fields_verbatim]
    raises = handler_raises()


@contract("ledger/protocol.py", "HSM2ProtocolLedger._reset_advance_blockchain", serves=ALLH)
class ResetAdvanceBlockchain(Contract):
    self_spec = PROTO
    params = dict(request=JSON_)
    result = RES()
    modifies_self = dict(_comm_issue=BOOL_)
    requires = [proto_invariant]

    def success_iff_device_answered(result, g, old):
        return implies(not ci(old), (result[0] == 0) == ok(g))
    ensures = handler_clauses("resetAdvanceBlockchain") + [success_iff_device_answered]
    raises = handler_raises()


@contract("ledger/protocol.py", "HSM2ProtocolLedger._get_blockchain_parameters", serves=ALLH)
class GetBlockchainParameters(Contract):
    self_spec = PROTO
    params = dict(request=JSON_)
    result = RES(parameters=PYDICT(checkpoint=STR_, minimum_difficulty=INT_, network=STR_))
    modifies_self = dict(_comm_issue=BOOL_)
    requires = [proto_invariant]

    def success_iff_device_answered(result, g, old):
        return implies(not ci(old), (result[0] == 0) == ok(g))
    def fields_verbatim(result, g):
        if len(result) == 2:
            p = result[1]["parameters"]
            d = g.last_resp[3:]
            return (result[0] == 0 and p["checkpoint"] == hexs(d[0:32]) and p["minimum_difficulty"] == be_int(d[32:68])
                    and p["network"] == ite(d[68] == 1, "mainnet", ite(d[68] == 2, "testnet", "regtest")))
        return result[0] != 0
    ensures = handler_clauses("blockchainParameters") + [success_iff_device_answered, fields_verbatim]
    raises = handler_raises()


# ---- sign ----------------------------------------------------------------------------------------------------
from .hsm2dongle_ops import tx_payload, flat, KEY_TX, KEY_RECEIPT, KEY_MERKLE, su_message      # noqa
from .bitcoin_ext import unsigned_of                                                        # noqa
from spec.requests import (valid_auth, msg_hash, msg_legacy, msg_segwit, sign_validated, T_DICT)      # noqa


@contract("ledger/protocol.py", "HSM2ProtocolLedger._sign", serves=ALLH + ["C01", "C02", "C14"])
class Sign(Contract):
    self_spec = PROTO
    params = dict(request=REQ_KEYID)
    result = RES(signature=SIGDICT)
    modifies_self = dict(_comm_issue=BOOL_)
    inline_callees = ("HSM2Protocol._validate_message", "HSM2Protocol._validate_auth")
    max_paths = 6000
    exception_serves = ("C03", "C04")

    def validated(request): return sign_validated(request) and path_wf(request["keyId"])
    requires = [validated, proto_invariant]

    # ---- C02 second stage / C14: nothing is exchanged before ensure_connection is reached, and it is reached only
    # for a request acceptable at the second stage (hash message, or tx message with an authorization)
    @only("C02", "C14")
    def nothing_sent_before_connection_check(g, old):
        return ghost_same_log(g, old.g)
    at_calls = {"ensure_connection": [nothing_sent_before_connection_check]}
    @only("C02", "C14")
    def exchange_only_if_accepted(request, g, old):
        m = request["message"]
        return implies(not ci(old) and g.nx > old.g.nx,
                       msg_hash(m) or (jhas(request, "auth") and (msg_legacy(m) or msg_segwit(m))))
    # ---- C14 (last sentence): a transaction get_unsigned_tx refuses (undecodable, or an input with an empty script) is
    # answered -102 and nothing has been sent.  `msg` is bound only once both validations of the authorized branch
    # passed; a return with `msg` bound and `unsigned_btc_tx` unbound is the `except Exception` of that call.
    @only("C14")
    def refused_transaction_is_answered_minus_102_without_any_exchange(result, g, old, msg=None):
        if is_none(msg):
            return True
        return result[0] == -102 and ghost_same_log(g, old.g)
    at_exit_if_unbound = [("unsigned_btc_tx", refused_transaction_is_answered_minus_102_without_any_exchange)]
    @only("C02")
    def authorized_needs_auth(result, request):
        return implies(not msg_hash(request["message"]) and not jhas(request, "auth"), result[0] == -101)
    # ---- C01 unauthorized: one message with path and hash
    @only("C01")
    def unauthorized_message(result, request, g, old):
        m = request["message"]
        return implies(not ci(old) and msg_hash(m),
                       ghost_step(g, old.g, su_message(request["keyId"], jstr(m["hash"]))))
    @only("C01", "C04")
    def success_iff_device_signed(result, request, g, old):
        return implies(not ci(old) and result[0] == 0, ok(g) and (g.last_resp[2] == 0x81) and der_ok(g.last_resp[3:]))
    @only("C01", "C13")
    def signature_verbatim(result, g):
        if len(result) == 2:
            sg = result[1]["signature"]
            return result[0] == 0 and sg["r"] == hexs(der_r(g.last_resp[3:])) and sg["s"] == hexs(der_s(g.last_resp[3:]))
        return result[0] != 0
    # ---- C04
    @only("C04")
    def named_causes(result, request, g, old):
        m = request["message"]
        return implies(not ci(old) and classify(g) == K_ERR and g.nx > old.g.nx,
                       implies(sign_named(not msg_hash(m), g.last_op, g.last_sw) == -103, result[0] == -103)
                       and implies(sign_named(not msg_hash(m), g.last_op, g.last_sw) == -102, result[0] == -102)
                       and implies(sign_named(not msg_hash(m), g.last_op, g.last_sw) == -101, result[0] == -101))
    ensures = handler_clauses("sign") + [exchange_only_if_accepted, authorized_needs_auth, unauthorized_message,
                                         success_iff_device_signed, signature_verbatim, named_causes]
    raises = handler_raises()


# ---- heartbeats ------------------------------------------------------------------------------------------
REQ_UD = JSON_


def hb_fields(result, g, old):
    if len(result) == 2:
        r = result[1]
        n = len(g.resps)
        return result[0] == 0
    return result[0] != 0


@contract("ledger/protocol.py", "HSM2ProtocolLedger._signer_heartbeat", serves=ALLH)
class SignerHeartbeatHandler(Contract):
    self_spec = PROTO
    params = dict(request=JSON_)
    result = HBRES
    modifies_self = dict(_comm_issue=BOOL_)

    def validated(request):
        return (jtag(request) == 6 and jhas(request, "udValue") and jtag(request["udValue"]) == 4
                and is_hex(jstr(request["udValue"])) and len(unhex(jstr(request["udValue"]))) == 16)
    requires = [validated, proto_invariant]

    @only("C13")
    def fields_verbatim(result, request, g, old):
        """pubKey / message / tweak / signature are the answers to ops 5 / 3 / 4 / 2 of command 0x60"""
        if len(result) == 2:
            r = result[1]
            n = len(g.resps)
            m = len(g.log)
            return (result[0] == 0 and n >= 5 and m >= 5
                    and g.log[m - 5] == apdu_of(0x60, bytes([1]) + unhex(jstr(request["udValue"])))
                    and g.log[m - 4] == apdu_of(0x60, bytes([2])) and g.log[m - 3] == apdu_of(0x60, bytes([3]))
                    and g.log[m - 2] == apdu_of(0x60, bytes([4])) and g.log[m - 1] == apdu_of(0x60, bytes([5]))
                    and r["pubKey"] == hexs(g.resps[n - 1][3:]) and r["message"] == hexs(g.resps[n - 3][3:])
                    and r["tweak"] == hexs(g.resps[n - 2][3:])
                    and r["signature"]["r"] == hexs(der_r(g.resps[n - 4][3:]))
                    and r["signature"]["s"] == hexs(der_s(g.resps[n - 4][3:])))
        return result[0] != 0
    @only("C04")
    def success_iff_device_answered(result, g, old):
        return implies(not ci(old), (result[0] == 0) == (ok(g) and g.nx == old.g.nx + 5))
    ensures = handler_clauses("signerHeartbeat") + [fields_verbatim, success_iff_device_answered]
    raises = handler_raises()
    exception_serves = ("C03", "C04")


@contract("ledger/protocol.py", "HSM2ProtocolLedger._ui_heartbeat", serves=ALLH)
class UIHeartbeatHandler(Contract):
    self_spec = PROTO
    params = dict(request=JSON_)
    result = HBRES
    modifies_self = dict(_comm_issue=BOOL_)
    max_paths = 6000

    def validated(request):
        return (jtag(request) == 6 and jhas(request, "udValue") and jtag(request["udValue"]) == 4
                and is_hex(jstr(request["udValue"])) and len(unhex(jstr(request["udValue"]))) == 32)
    requires = [validated, proto_invariant]

    @only("C13")
    def starts_by_asking_the_mode(g, old):
        return implies(not ci(old), g.nx >= old.g.nx + 1 and g.log[len(old.g.log)] == apdu_of(0x43, b""))
    @only("C13")
    def success_leaves_signer_mode(result, g, old):
        """a UI heartbeat taken from signer mode reports success only if the last mode observed is SIGNER"""
        return implies(not ci(old) and result[0] == 0 and g.resps[len(old.g.resps)][1] == 3,
                       ok(g) and g.last_cmd == 0x43 and g.last_resp[1] == 3)
    ensures = handler_clauses("uiHeartbeat") + [starts_by_asking_the_mode, success_leaves_signer_mode]
    raises = handler_raises()
    exception_serves = ("C03", "C04")

"""Protocol version 1 (legacy): HSM1Protocol / HSM1ProtocolLedger (C02 C03 C04 C11 C13 C01)."""
from .common import *
from spec.requests import *       # noqa
from spec.protocol_doc import sign_named
from .ledger_protocol import PINOBJ, PERR, PINT, REQ_KEYID, RES, SIGDICT, proto_invariant
from .comm_protocol import keyid_ok, BIP32PATH
from .hsm2dongle_basic import ok
from .hsm2dongle_ops import su_message

V2INNER = NEW("ledger.protocol:HSM2ProtocolLedger", PINOBJ, DONGLE, _comm_issue=BOOL_)
V1 = NEW("ledger.protocol_v1:HSM1ProtocolLedger", PINOBJ, DONGLE)


def ci1(old):
    return field(field(old.self, "protocol_v2"), "_comm_issue")


def v1_invariant(self):
    return proto_invariant(self.protocol_v2) and same_object(self.hsm2dongle, self.protocol_v2.hsm2dongle)


class _V1Handler(Contract):
    self_spec = V1
    params = dict(request=REQ_KEYID)
    exception_serves = ("C03", "C04")


def v1_clauses():
    @only("C04")
    def legacy_codes(result): return result[0] == 0 or result[0] == -2
    @only("C11")
    def timeout_is_device_error(result, self, g, old):
        return implies(not ci1(old) and g.nx > old.g.nx and classify(g) == K_TIMEOUT, result[0] == -2)
    @only("C11")
    def link_error_is_device_error_and_flagged(result, self, g, old):
        return implies(not ci1(old) and g.nx > old.g.nx and classify(g) == K_COMM,
                       result[0] == -2 and self.protocol_v2._comm_issue)
    @only("C03")
    def success_carries_output(result): return implies(result[0] >= 0, len(result) == 2)
    return [legacy_codes, timeout_is_device_error, link_error_is_device_error_and_flagged, success_carries_output]


def v1_raises():
    def device_outside_protocol(g, old): return ci1(old) or classify(g) == K_OTHER
    def only_during_repair(old): return ci1(old)
    return {PERR: Exc(args=[STR_], post=[device_outside_protocol]), PINT: Exc(post=[only_during_repair])}


@contract("ledger/protocol_v1.py", "HSM1ProtocolLedger._get_pubkey", serves=["C03", "C04", "C11", "C13"])
class GetPubkeyV1(_V1Handler):
    result = RES(pubKey=STR_)

    def validated(request): return jtag(request) == 6 and path_wf(request["keyId"])
    requires = [validated, v1_invariant]

    @only("C13")
    def key_verbatim(result, g):
        if len(result) == 2:
            return result[0] == 0 and result[1]["pubKey"] == hexs(g.last_resp)
        return result[0] != 0
    @only("C13", "C04")
    def one_query_for_the_requested_path(request, g, old):
        return implies(not ci1(old), ghost_step(g, old.g, apdu_of(0x04, pathbin(request["keyId"]))))
    @only("C04")
    def success_iff_device_answered(result, g, old): return implies(not ci1(old), (result[0] == 0) == ok(g))
    ensures = v1_clauses() + [key_verbatim, one_query_for_the_requested_path, success_iff_device_answered]
    raises = v1_raises()


@contract("ledger/protocol_v1.py", "HSM1ProtocolLedger._sign", serves=["C03", "C04", "C11", "C13", "C01"])
class SignV1(_V1Handler):
    result = RES(signature=SIGDICT)

    def validated(request):
        return (jtag(request) == 6 and path_wf(request["keyId"]) and jhas(request, "message")
                and jtag(request["message"]) == 4 and is_hex(jstr(request["message"]))
                and len(unhex(jstr(request["message"]))) == 32)
    requires = [validated, v1_invariant]

    @only("C01")
    def one_message_with_path_and_hash(request, g, old):
        return implies(not ci1(old), ghost_step(g, old.g, su_message(request["keyId"], jstr(request["message"]))))
    @only("C01", "C13")
    def signature_verbatim(result, g):
        if len(result) == 2:
            sg = result[1]["signature"]
            return (result[0] == 0 and ok(g) and g.last_resp[2] == 0x81
                    and sg["r"] == hexs(der_r(g.last_resp[3:])) and sg["s"] == hexs(der_s(g.last_resp[3:])))
        return result[0] != 0
    ensures = v1_clauses() + [one_message_with_path_and_hash, signature_verbatim]
    raises = v1_raises()


@contract("comm/protocol_v1.py", "HSM1Protocol._validate_sign", serves=["C02", "C03"])
class ValidateSignV1(Contract):
    self_spec = V1
    params = dict(request=JSONOV())
    result = INT_
    pure = True
    inline_callees = ("HSM2Protocol._validate_key_id",)

    def is_object(request): return jtag(request) == T_DICT
    requires = [is_object]

    def verdict(result, request, old):
        r = old.request
        msg_ok = (jhas(r, "message") and jtag(r["message"]) == T_STR and is_hex(jstr(r["message"]))
                  and len(unhex(jstr(r["message"]))) == 32)
        return (result == 0) == (keyid_ok(r) and msg_ok) and (result == 0 or result == -2)
    ensures = [verdict]

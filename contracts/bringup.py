"""Bring-up: initialize_device (with _handle_bootloader, _check_version, _wait_and_reconnect inlined) and
ensure_connection (C09 C10 C11)."""
from .common import *
from .ledger_protocol import PROTO, PERR, PINT, ci, PINOBJ
from .hsm2dongle_basic import VERSION
from .pin import pin_policy

CMD_UNLOCK, CMD_SEND_PIN, CMD_CHANGE_PIN = 0xFE, 0x41, 0x08
BOOTLOADER, SIGNER = 2, 3


def ver_supported(major, minor, patch):
    """same major version, minor.patch not newer than the manager's 5.4.1 (property text)"""
    return major == 5 and (minor < 4 or (minor == 4 and patch <= 1))


def sent(g, old, k, apdu):
    return g.log[len(old.g.log) + k] == apdu


def answer(g, old, k):
    return g.resps[len(old.g.resps) + k]


def unlocks(g):
    return sel(g.cnt, CMD_UNLOCK)


def monotone(g, old):
    return (g.nx >= old.g.nx and g.conn >= old.g.conn and g.disc >= old.g.disc and prefix_of(old.g.log, g.log)
            and prefix_of(old.g.resps, g.resps) and len(g.log) == len(old.g.log) + (g.nx - old.g.nx)
            and len(g.resps) == len(old.g.resps) + (g.nx - old.g.nx))


@contract("ledger/protocol.py", "HSM2ProtocolLedger.initialize_device", serves=["C09", "C10", "C11", "C03"])
class InitializeDevice(Contract):
    self_spec = PROTO
    modifies_self = dict(_dongle_app_version=VERSION, _dongle_ui_version=VERSION)
    max_paths = 8000
    exception_serves = ("C09", "C03")

    def pin_invariant(self):
        """class invariant of FileBasedPin between requests: a valid PIN loaded, no change in progress"""
        return pin_policy(self.pin._pin) and not self.pin._changing
    requires = [pin_invariant]

    # ---- C09: the unlock command is sent only under its five preconditions, and at most once
    @only("C09")
    def unlock_only_when_safe(self, g, old):
        """at the call of dongle.unlock: the device answered onboarded, bootloader mode, a supported UI version,
        echoed correctly and reported at least two retries; no unlock has been sent yet"""
        return (sent(g, old, 0, apdu_of(0x06, b"")) and answer(g, old, 0)[1] == 1
                and sent(g, old, 1, apdu_of(0x43, b"")) and answer(g, old, 1)[1] == BOOTLOADER
                and sent(g, old, 2, apdu_of(0x06, b""))
                and ver_supported(answer(g, old, 2)[2], answer(g, old, 2)[3], answer(g, old, 2)[4])
                and sent(g, old, 3, apdu_of(0x02, bytes([0x41, 0x42, 0x43])))
                and answer(g, old, 3) == bytes([0x80, 0x02, 0x41, 0x42, 0x43])
                and sent(g, old, 4, apdu_of(0x45, b"")) and answer(g, old, 4)[2] >= 2
                and g.nx == old.g.nx + 5 and unlocks(g) == unlocks(old.g))
    @only("C10", "C09")
    def new_pin_only_after_unlock(self, g, old):
        return unlocks(g) == unlocks(old.g) + 1 and sel(g.cnt, CMD_CHANGE_PIN) == sel(old.g.cnt, CMD_CHANGE_PIN)
    at_calls = {"unlock": [unlock_only_when_safe], "new_pin": [new_pin_only_after_unlock]}

    # ---- normal return = the manager goes on to serve
    @only("C09")
    def serves_only_from_signer_mode(is_onboarded, current_mode, self, g, old):
        v = self._dongle_app_version
        return (is_onboarded and current_mode == SIGNER and ver_supported(v.major, v.minor, v.patch)
                and answer(g, old, 0)[1] == 1)
    @only("C09", "C10")
    def no_pin_change_when_serving(self, g, old):
        return sel(g.cnt, CMD_CHANGE_PIN) == sel(old.g.cnt, CMD_CHANGE_PIN)
    at_exit = [serves_only_from_signer_mode, no_pin_change_when_serving]

    def at_most_one_unlock(g, old): return unlocks(g) <= unlocks(old.g) + 1
    def bring_up_sequence(g, old):
        return (monotone(g, old) and g.conn >= old.g.conn + 1 and g.nx >= old.g.nx + 4
                and sent(g, old, 0, apdu_of(0x06, b"")) and sent(g, old, 1, apdu_of(0x43, b"")))
    ensures = [at_most_one_unlock, bring_up_sequence]

    def x_frame(g, old): return monotone(g, old) and g.conn >= old.g.conn + 1 and unlocks(g) <= unlocks(old.g) + 1
    raises = {
        PERR: Exc(args=[STR_], post=[x_frame]),
        PINT: Exc(post=[x_frame]),
        ERR_RESULT: Exc(args=[INT_], post=[x_frame, x_err]),
        ERR_TIMEOUT: Exc(args=[STR_], post=[x_frame, x_timeout]),
        ERR_COMM: Exc(args=[STR_], post=[x_frame]),
        ERR_DONGLE: Exc(args=[STR_], post=[x_frame]),
    }

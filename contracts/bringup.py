"""Bring-up: initialize_device (with _handle_bootloader, _check_version, _wait_and_reconnect inlined) and
ensure_connection (C09 C10 C11)."""
from .common import *
from .ledger_protocol import PROTO, PERR, PINT, ci, PINOBJ
from .hsm2dongle_basic import VERSION, ok
from .pin import pin_policy

CMD_UNLOCK, CMD_SEND_PIN, CMD_CHANGE_PIN = 0xFE, 0x41, 0x08
BOOTLOADER, SIGNER = 2, 3


def ver_supported(major, minor, patch):
    """same major version, minor.patch not newer than the manager's 5.4.1 (property text)"""
    return major == 5 and (minor < 4 or (minor == 4 and patch <= 1))


def sent(g, old, k, apdu):
    return g.log[len(old.g.log) + k] == apdu


def answer(g, old, k):
    return g.resps[len(old.g.resps) + k]


def unlocks(g):
    return sel(g.cnt, CMD_UNLOCK)


def ok_change_pin(g):
    """the last exchange was CHANGE_PIN and the device acknowledged it"""
    return classify(g) == K_OK and g.last_cmd == CMD_CHANGE_PIN


def pin_in_log(g):
    """the 8 PIN bytes carried by the SEND_PIN APDUs that precede the last APDU (after the length byte)"""
    n = len(g.log)
    return bytes([g.log[n - 9][3], g.log[n - 8][3], g.log[n - 7][3], g.log[n - 6][3],
                  g.log[n - 5][3], g.log[n - 4][3], g.log[n - 3][3], g.log[n - 2][3]])


def last_two_say_onboarded_bootloader(g):
    n = len(g.log)
    m = len(g.resps)
    return (n >= 2 and m >= 2 and g.log[n - 2] == apdu_of(0x06, b"") and g.resps[m - 2][1] == 1
            and g.log[n - 1] == apdu_of(0x43, b"") and g.resps[m - 1][1] == BOOTLOADER)


@contract("ledger/protocol.py", "HSM2ProtocolLedger._handle_bootloader", serves=["C09", "C10", "C11", "C03"])
class HandleBootloader(Contract):
    self_spec = PROTO
    modifies_self = dict(_dongle_ui_version=VERSION)
    max_paths = 8000
    exception_serves = ("C09", "C03")

    def pin_invariant(self):
        """class invariant of FileBasedPin between requests: a valid PIN loaded, no change in progress"""
        return pin_policy(self.pin._pin) and not self.pin._changing
    @only("C09")
    def device_said_onboarded_and_bootloader(g):
        """the caller has just learnt, from the device, that it is onboarded and in bootloader mode"""
        return last_two_say_onboarded_bootloader(g)
    requires = [pin_invariant, device_said_onboarded_and_bootloader]

    # ---- C09: the unlock command is sent only under its preconditions, and at most once
    @only("C09")
    def unlock_only_when_safe(self, g, old):
        """at the call of dongle.unlock: (onboarded and bootloader by the precondition, and) the device reported a
        supported UI version, echoed correctly and has at least two retries left; nothing else was exchanged"""
        return (last_two_say_onboarded_bootloader(old.g)
                and sent(g, old, 0, apdu_of(0x06, b""))
                and ver_supported(answer(g, old, 0)[2], answer(g, old, 0)[3], answer(g, old, 0)[4])
                and sent(g, old, 1, apdu_of(0x02, bytes([0x41, 0x42, 0x43])))
                and answer(g, old, 1) == bytes([0x80, 0x02, 0x41, 0x42, 0x43])
                and sent(g, old, 2, apdu_of(0x45, b"")) and answer(g, old, 2)[2] >= 2
                and g.nx == old.g.nx + 3 and unlocks(g) == unlocks(old.g))
    @only("C10", "C09")
    def new_pin_only_after_unlock(self, g, old):
        return unlocks(g) == unlocks(old.g) + 1 and sel(g.cnt, CMD_CHANGE_PIN) == sel(old.g.cnt, CMD_CHANGE_PIN)
    # ---- C10: the PIN file is written only after the device acknowledged the new PIN, with that very PIN
    @only("C10")
    def commit_only_after_acknowledgement(self, g, old):
        return (self.pin._changing and ok_change_pin(g)
                and sel(g.cnt, CMD_CHANGE_PIN) == sel(old.g.cnt, CMD_CHANGE_PIN) + 1
                and g.fs_writes == old.g.fs_writes and g.pinfile == old.g.pinfile)
    @only("C10")
    def device_is_sent_the_generated_pin(self, arg_pin):
        """the PIN offered to the device is the one start_change generated (valid by the policy), which is the
        one commit_change will write"""
        return self.pin._changing and arg_pin == self.pin._new_pin and pin_policy(arg_pin)
    at_calls = {"unlock": [unlock_only_when_safe], "new_pin": [new_pin_only_after_unlock, device_is_sent_the_generated_pin],
                "commit_change": [commit_only_after_acknowledgement]}

    @only("C10")
    def serving_means_no_change_was_needed(self, g, old):
        return (not field(field(old.self, "pin"), "_needs_change") and g.pinfile == old.g.pinfile
                and g.fs_writes == old.g.fs_writes and self.pin._pin == field(field(old.self, "pin"), "_pin"))
    at_exit = [serving_means_no_change_was_needed]

    def unlocked_without_pin_change(g, old):
        """normal return: exactly one unlock, accepted; no PIN change; the connection was re-opened"""
        return (unlocks(g) == unlocks(old.g) + 1 and sel(g.cnt, CMD_CHANGE_PIN) == sel(old.g.cnt, CMD_CHANGE_PIN)
                and monotone(g, old) and g.conn == old.g.conn + 1)
    @only("C10")
    def x_only_an_interrupt_follows_a_change_attempt(self, g, old):
        """"after any change attempt the manager stops instead of carrying on": every exit other than the interrupt
        (a normal return, a device error, a protocol error) happens with no change in progress and with no byte of a
        new PIN sent to the device (the unlock itself sends the 8 bytes of the PIN in use, then UNLOCK)"""
        return (not self.pin._changing and sel(g.cnt, CMD_CHANGE_PIN) == sel(old.g.cnt, CMD_CHANGE_PIN)
                and sel(g.cnt, CMD_SEND_PIN) <= sel(old.g.cnt, CMD_SEND_PIN) + 8)
    ensures = [unlocked_without_pin_change, x_only_an_interrupt_follows_a_change_attempt]

    def x_frame(g, old): return monotone(g, old) and unlocks(g) <= unlocks(old.g) + 1
    @only("C10")
    def x_file_changes_only_after_acknowledgement(g, old):
        return implies(g.fs_writes != old.g.fs_writes or g.pinfile != old.g.pinfile,
                       ok_change_pin(g) and sel(g.cnt, CMD_CHANGE_PIN) == sel(old.g.cnt, CMD_CHANGE_PIN) + 1
                       and g.fs_writes == old.g.fs_writes + 1)
    @only("C10")
    def x_refused_or_failed_change_leaves_pin_untouched(self, g, old):
        return implies(not ok_change_pin(g) or sel(g.cnt, CMD_CHANGE_PIN) == sel(old.g.cnt, CMD_CHANGE_PIN),
                       g.pinfile == old.g.pinfile and self.pin._pin == field(field(old.self, "pin"), "_pin"))
    @only("C10")
    def x_acknowledged_pin_is_on_disk(self, g, old):
        """crash / failure safety: once the device has adopted a new PIN, that PIN is what the file holds"""
        return implies(ok_change_pin(g) and sel(g.cnt, CMD_CHANGE_PIN) == sel(old.g.cnt, CMD_CHANGE_PIN) + 1,
                       g.pinfile == self.pin._pin and not self.pin._needs_change)
    def x_no_file_change(g, old): return g.pinfile == old.g.pinfile and g.fs_writes == old.g.fs_writes
    C10X = [x_file_changes_only_after_acknowledgement, x_refused_or_failed_change_leaves_pin_untouched,
            x_acknowledged_pin_is_on_disk]
    raises = {
        PERR: Exc(args=[STR_], post=[x_frame, x_no_file_change, x_only_an_interrupt_follows_a_change_attempt]),
        PINT: Exc(post=[x_frame] + C10X),
        ERR_RESULT: Exc(args=[INT_], post=[x_frame, x_err, x_no_file_change, x_only_an_interrupt_follows_a_change_attempt]),
        ERR_TIMEOUT: Exc(args=[STR_], post=[x_frame, x_timeout, x_no_file_change, x_only_an_interrupt_follows_a_change_attempt]),
        ERR_COMM: Exc(args=[STR_], post=[x_frame, x_no_file_change, x_only_an_interrupt_follows_a_change_attempt]),
        ERR_DONGLE: Exc(args=[STR_], post=[x_frame, x_no_file_change, x_only_an_interrupt_follows_a_change_attempt]),
    }


@contract("ledger/protocol.py", "HSM2ProtocolLedger.initialize_device", serves=["C09", "C10", "C11", "C03"])
class InitializeDevice(Contract):
    self_spec = PROTO
    modifies_self = dict(_dongle_app_version=VERSION, _dongle_ui_version=VERSION)
    max_paths = 8000
    exception_serves = ("C09", "C03")

    def pin_invariant(self):
        return pin_policy(self.pin._pin) and not self.pin._changing
    requires = [pin_invariant]

    # ---- normal return = the manager goes on to serve
    @only("C09")
    def serves_only_from_signer_mode(is_onboarded, current_mode, self, g, old):
        v = self._dongle_app_version
        return (is_onboarded and current_mode == SIGNER and ver_supported(v.major, v.minor, v.patch)
                and answer(g, old, 0)[1] == 1)
    @only("C09", "C10")
    def no_pin_change_when_serving(self, g, old):
        return sel(g.cnt, CMD_CHANGE_PIN) == sel(old.g.cnt, CMD_CHANGE_PIN)
    at_exit = [serves_only_from_signer_mode, no_pin_change_when_serving]

    def at_most_one_unlock(g, old): return unlocks(g) <= unlocks(old.g) + 1
    def bring_up_sequence(g, old):
        return (monotone(g, old) and g.conn >= old.g.conn + 1 and g.nx >= old.g.nx + 4
                and sent(g, old, 0, apdu_of(0x06, b"")) and sent(g, old, 1, apdu_of(0x43, b"")))
    ensures = [at_most_one_unlock, bring_up_sequence]

    def x_frame(g, old): return monotone(g, old) and g.conn >= old.g.conn + 1 and unlocks(g) <= unlocks(old.g) + 1
    raises = {
        PERR: Exc(args=[STR_], post=[x_frame]),
        PINT: Exc(post=[x_frame]),
        ERR_RESULT: Exc(args=[INT_], post=[x_frame, x_err]),
        ERR_TIMEOUT: Exc(args=[STR_], post=[x_frame, x_timeout]),
        ERR_COMM: Exc(args=[STR_], post=[x_frame]),
        ERR_DONGLE: Exc(args=[STR_], post=[x_frame]),
    }

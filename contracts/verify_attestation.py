"""admin/verify_ledger_attestation.py (C08, Ledger half): do_verify_attestation finishes without error only when the
whole conjunction of the property holds; the values it prints are slices of the signed messages at the documented
offsets.  Callees: validate_and_get_values (verified, C06), compute_pubkeys_hash and PowHsmAttestationMessage (verified
above), load_pubkeys / compute_pubkeys_output / HSMCertificate.from_jsonfile (ASSUMED contracts: file and JSON I/O)."""
from .common import *
from .certificate_v1 import CERT, cert_wf
from .attestation_utils import powhsm_header, HEADER_LEN, BODY_LEN, be_value
from spec.certs import chain_valid, signed_message
from spec.pubkeys_ext import PUBKEYS, keys_blob, map_of, n_keys, compressed_key_hex, has_path
from spec.hash_ext import sha256
import spec.cli_ext     # noqa  (console log)
import spec.regex_ext   # noqa

OPTIONS = OPAQUE("options", attestation_certificate_file_path=ONEOF(NONE_, STR_), pubkeys_file_path=ONEOF(NONE_, STR_),
                 root_authority=ONEOF(NONE_, STR_))
ADMIN_ERROR = "admin.misc:AdminError"


@contract("admin/attestation_utils.py", "load_pubkeys", serves=["C08"])
class LoadPubkeys(Contract):
    assume_only = True
    assumptions = ["load_pubkeys(path) returns the map path -> secp256k1 public key read from the file, or raises AdminError (file / JSON "
                   "handling not verified)"]
    params = dict(pubkeys_file_path=STR_)
    result = PUBKEYS
    pure = True
    raises = {ADMIN_ERROR: Exc()}


@contract("admin/attestation_utils.py", "compute_pubkeys_output", serves=["C08"])
class ComputePubkeysOutput(Contract):
    assume_only = True
    assumptions = ["compute_pubkeys_output(map) returns display lines (formatting not verified)"]
    params = dict(pubkeys_map=PUBKEYS)
    result = LIST(STR_)
    pure = True
    raises = {"Exception": Exc()}


@contract("admin/certificate_v1.py", "HSMCertificate.from_jsonfile", serves=["C08"])
class FromJsonFile(Contract):
    assume_only = True
    assumptions = ["HSMCertificate.from_jsonfile(path) raises ValueError or returns a VERSION-1 certificate as _parse leaves it (file "
                   "reading, JSON decoding and the version dispatch are not verified; a version-2 file given to the Ledger command is "
                   "outside this contract)"]
    params = dict(path=STR_)
    result = CERT
    pure = True

    def as_parse_leaves_it(result): return cert_wf(result)
    ensures = [as_parse_leaves_it]
    raises = {"ValueError": Exc(args=[STR_])}


UI_PATH = "m/44'/0'/0'/0/0"


def ui_header(m):
    return (len(m) >= 10 and m[0:7] == b"HSM:UI:" and 0x32 <= m[7] and m[7] <= 0x35 and m[8] != 10 and 0x30 <= m[9] and m[9] <= 0x39)


def legacy_signer_header(m):
    return (len(m) >= 14 and m[0:11] == b"HSM:SIGNER:" and 0x32 <= m[11] and m[11] <= 0x35 and m[12] != 10
            and 0x30 <= m[13] and m[13] <= 0x39)


@contract("admin/verify_ledger_attestation.py", "do_verify_attestation", serves=["C08"])
class VerifyLedgerAttestation(Contract):
    params = dict(options=OPTIONS)
    max_paths = 20000
    exception_serves = ()
    ghost_frame = ["stdout_log"]

    # every clause below is about a NORMAL return: "finish without error only when ..."
    def chain_is_valid_for_the_chosen_root(att_cert, root_authority):
        return (chain_valid(att_cert._elements, "ui", root_authority) and chain_valid(att_cert._elements, "signer", root_authority))
    def ui_message_has_the_expected_header(att_cert): return ui_header(signed_message(att_cert._elements, "ui"))
    def ui_attested_key_is_the_operators(att_cert, pubkeys_map):
        m = signed_message(att_cert._elements, "ui")
        return has_path(pubkeys_map, UI_PATH) and hexs(m[42:75]) == compressed_key_hex(pubkeys_map, UI_PATH)
    def signer_message_is_well_formed_and_vouches_for_the_operators_keys(att_cert, pubkeys_map):
        m = signed_message(att_cert._elements, "signer")
        keys_hash = sha256(keys_blob(map_of(pubkeys_map), n_keys(pubkeys_map)))
        legacy = legacy_signer_header(m) and len(m) == 14 + 32 and m[14:46] == keys_hash
        current = powhsm_header(m) and len(m) == HEADER_LEN + BODY_LEN and m[47:79] == keys_hash
        return n_keys(pubkeys_map) > 0 and (legacy or current)
    def printed_values_are_the_signed_ones(att_cert, ud_value, ui_public_key, signer_iteration):
        m = signed_message(att_cert._elements, "ui")
        return ud_value == hexs(m[10:42]) and ui_public_key == hexs(m[42:75]) and signer_iteration == be_value(m[107:109])
    at_exit = [chain_is_valid_for_the_chosen_root, ui_message_has_the_expected_header, ui_attested_key_is_the_operators,
               signer_message_is_well_formed_and_vouches_for_the_operators_keys, printed_values_are_the_signed_ones]
    raises = {"Exception": Exc()}


@contract("admin/misc.py", "head", serves=["C08"])
class Head(Contract):
    assume_only = True
    assumptions = ["admin.misc.head only prints its lines (console output is not part of what C08's contract states: the printed values "
                   "are checked as the local variables handed to head)"]
    params = dict(fill=STR_, nl=BOOL_)        # `ss` (a str or a list of str) is only printed
    pure = True
    ghost_frame = ["stdout_log"]

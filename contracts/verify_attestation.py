"""admin/verify_ledger_attestation.py (C08, Ledger half): do_verify_attestation finishes without error only when the
whole conjunction of the property holds; the values it prints are slices of the signed messages at the documented
offsets.  Callees: validate_and_get_values (verified, C06), compute_pubkeys_hash and PowHsmAttestationMessage (verified
above), load_pubkeys / compute_pubkeys_output / HSMCertificate.from_jsonfile (ASSUMED contracts: file and JSON I/O)."""
from .common import *
from .certificate_v1 import CERT, cert_wf
from .attestation_utils import powhsm_header, HEADER_LEN, BODY_LEN, be_value
from spec.certs import chain_valid, signed_message, signed_tweak
from .signer_auth import dec
from spec.pubkeys_ext import PUBKEYS, keys_blob, map_of, n_keys, compressed_key_hex, has_path
from spec.hash_ext import sha256
import spec.cli_ext     # noqa  (console log)
import spec.regex_ext   # noqa

OPTIONS = OPAQUE("options", attestation_certificate_file_path=ONEOF(NONE_, STR_), pubkeys_file_path=ONEOF(NONE_, STR_),
                 root_authority=ONEOF(NONE_, STR_))
ADMIN_ERROR = "admin.misc:AdminError"


@contract("admin/attestation_utils.py", "load_pubkeys", serves=["C08"])
class LoadPubkeys(Contract):
    assume_only = True
    assumptions = ["load_pubkeys(path) returns the map path -> secp256k1 public key read from the file, or raises AdminError (file / JSON "
                   "handling not verified)"]
    params = dict(pubkeys_file_path=STR_)
    result = PUBKEYS
    pure = True
    raises = {ADMIN_ERROR: Exc()}


@contract("admin/attestation_utils.py", "compute_pubkeys_output", serves=["C08"])
class ComputePubkeysOutput(Contract):
    assume_only = True
    assumptions = ["compute_pubkeys_output(map) returns display lines (formatting not verified)"]
    params = dict(pubkeys_map=PUBKEYS)
    result = LIST(STR_)
    pure = True
    raises = {"Exception": Exc()}


@contract("admin/certificate_v1.py", "HSMCertificate.from_jsonfile", serves=["C08"])
class FromJsonFile(Contract):
    assume_only = True
    assumptions = ["HSMCertificate.from_jsonfile(path) raises ValueError or returns a VERSION-1 certificate as _parse leaves it (file "
                   "reading, JSON decoding and the version dispatch are not verified; a version-2 file given to the Ledger command is "
                   "outside this contract)"]
    params = dict(path=STR_)
    result = CERT
    pure = True

    def as_parse_leaves_it(result): return cert_wf(result)
    ensures = [as_parse_leaves_it]
    raises = {"ValueError": Exc(args=[STR_])}


UI_PATH = "m/44'/0'/0'/0/0"


def ui_header(m):
    return (len(m) >= 10 and m[0:7] == b"HSM:UI:" and 0x32 <= m[7] and m[7] <= 0x35 and m[8] != 10 and 0x30 <= m[9] and m[9] <= 0x39)


def legacy_signer_header(m):
    return (len(m) >= 14 and m[0:11] == b"HSM:SIGNER:" and 0x32 <= m[11] and m[11] <= 0x35 and m[12] != 10
            and 0x30 <= m[13] and m[13] <= 0x39)


@contract("admin/verify_ledger_attestation.py", "do_verify_attestation", serves=["C08"])
class VerifyLedgerAttestation(Contract):
    params = dict(options=OPTIONS)
    max_paths = 20000
    exception_serves = ()
    ghost_frame = ["stdout_log"]

    # every clause below is about a NORMAL return: "finish without error only when ..."
    def chain_is_valid_for_the_chosen_root(att_cert, root_authority):
        return (chain_valid(att_cert._elements, "ui", root_authority) and chain_valid(att_cert._elements, "signer", root_authority))
    def ui_message_has_the_expected_header(att_cert): return ui_header(signed_message(att_cert._elements, "ui"))
    def ui_attested_key_is_the_operators(att_cert, pubkeys_map):
        m = signed_message(att_cert._elements, "ui")
        return has_path(pubkeys_map, UI_PATH) and hexs(m[42:75]) == compressed_key_hex(pubkeys_map, UI_PATH)
    def signer_message_is_well_formed_and_vouches_for_the_operators_keys(att_cert, pubkeys_map):
        m = signed_message(att_cert._elements, "signer")
        keys_hash = sha256(keys_blob(map_of(pubkeys_map), n_keys(pubkeys_map)))
        legacy = legacy_signer_header(m) and len(m) == 14 + 32 and m[14:46] == keys_hash
        current = powhsm_header(m) and len(m) == HEADER_LEN + BODY_LEN and m[47:79] == keys_hash
        return n_keys(pubkeys_map) > 0 and (legacy or current)
    def printed_values_are_the_signed_ones(att_cert, ud_value, ui_public_key, signer_iteration):
        m = signed_message(att_cert._elements, "ui")
        return ud_value == hexs(m[10:42]) and ui_public_key == hexs(m[42:75]) and signer_iteration == be_value(m[107:109])
    at_exit = [chain_is_valid_for_the_chosen_root, ui_message_has_the_expected_header, ui_attested_key_is_the_operators,
               signer_message_is_well_formed_and_vouches_for_the_operators_keys, printed_values_are_the_signed_ones]

    # "The values they print ... are those found at the documented offsets of the signed messages": the lines handed to
    # head() - the UI block and the signer block - are checked at the two call sites
    def printed_lines(arg_ss, att_cert=None, pubkeys_map=None, pubkeys_output=None):
        if is_str(arg_ss):
            return True                 # the title line
        if arg_ss[0] == "UI verified with:":
            m = signed_message(att_cert._elements, "ui")
            return (arg_ss[1] == "UD value: " + hexs(m[10:42])
                    and arg_ss[2] == "Derived public key (m/44'/0'/0'/0/0): " + hexs(m[42:75])
                    and arg_ss[3] == "Authorized signer hash: " + hexs(m[75:107])
                    and arg_ss[4] == "Authorized signer iteration: " + dec(be_value(m[107:109]))
                    and arg_ss[5] == "Installed UI hash: " + hexs(signed_tweak(att_cert._elements, "ui")))
        n = len(pubkeys_output)
        keys_hash = sha256(keys_blob(map_of(pubkeys_map), n_keys(pubkeys_map)))
        return (arg_ss[0] == "Signer verified with public keys:" and arg_ss[1 + n] == "Hash: " + hexs(keys_hash)
                and arg_ss[1 + n + 2] == "Installed Signer hash: " + hexs(signed_tweak(att_cert._elements, "signer")))
    at_calls = {"head": [printed_lines]}
    raises = {"Exception": Exc()}


@contract("admin/misc.py", "head", serves=["C08"])
class Head(Contract):
    assume_only = True
    assumptions = ["admin.misc.head only prints its lines (console output is not part of what C08's contract states: the printed values "
                   "are checked as the local variables handed to head)"]
    params = dict(fill=STR_, nl=BOOL_)        # `ss` (a str or a list of str) is only printed
    pure = True
    ghost_frame = ["stdout_log"]


# ================================================================================================ SGX half of C08
from .certificate_v2 import X509, QUOTE_SIZE                                  # noqa: E402
from spec.x509_ext import pem_of, cert_loads, within_validity, issued_by     # noqa: E402
from pyvc import terms as _tm                                                 # noqa: E402
from pyvc.values import to_term as _tt, as_value as _av, Opaque as _Opaque, Obj as _Obj   # noqa: E402

CERTV2 = OBJ("admin.certificate_v2:HSMCertificateV2", _targets=JSON_, _elements=OPAQUE("v2elements", id=INT_))
_v2_chain_valid = _tm.FunDecl("certv2.quote_chain_valid", [_tm.INT, _tm.BYTES, _tm.BYTES, _tm.BYTES], _tm.BOOL)


@native
def v2_chain_valid(ip, st, cert, root, quote_message, custom_data):
    """ASSUMED (uninterpreted): validate_and_get_values of the version-2 certificate `cert` reports the target "quote"
    valid for the root of trust `root`, the quote element carrying `quote_message` and `custom_data`"""
    cid = st.fields(cert)["_elements"].attrs["id"]
    return _av("bool", _v2_chain_valid(_tt(cid), _tt(st.fields(root)["_message"]), _tt(quote_message), _tt(custom_data)))


class FromJsonFileV2(Contract):
    """assumed, for the SGX command only: the file holds a version-2 certificate (or loading raises)"""
    file, qualname = "admin/certificate_v1.py", "HSMCertificate.from_jsonfile"
    assume_only = True
    params = dict(path=STR_)
    result = CERTV2
    pure = True
    serves = ["C08"]
    raises = {"ValueError": Exc(args=[STR_])}


def _native_sgx_quote():
    import importlib, os, sys
    import spec.cstruct as CS
    mw = os.path.join(CS.REPO, "middleware")
    if mw not in sys.path:
        sys.path.insert(0, mw)
    return importlib.import_module("sgx.envelope").SgxQuote


QUOTE_VIEW = OPAQUE("cstruct", cls=CONST(None), native=CONST(_native_sgx_quote()), value=BYTES_, offset=CONST(0), little=CONST(True),
                    size=CONST(QUOTE_SIZE))


def _v2_result(bound):
    return ONEOF(PYDICT(), PYDICT(quote=TUPLE(CONST(False), STR_)),
                 PYDICT(quote=TUPLE(CONST(True), PYDICT(sgx_quote=QUOTE_VIEW, message=STR_), NONE_)))


class ValidateV2(Contract):
    """assumed, for the SGX command only: the version-2 walk (NOT verified, see C07) yields no verdict for "quote", an
    invalid one naming an element, or a valid one whose value is the quote element's get_value()"""
    file, qualname = "admin/certificate_v1.py", "HSMCertificate.validate_and_get_values"
    assume_only = True
    self_spec = CERTV2
    params = dict(root_of_trust=X509)
    result = _v2_result
    pure = True
    serves = ["C08"]

    def valid_verdict_is_the_quote_elements(self, root_of_trust, result):
        if "quote" in result and result["quote"][0]:
            v = result["quote"][1]
            return (len(v["sgx_quote"].value) >= QUOTE_SIZE and is_hex(v["message"])
                    and v2_chain_valid(self, root_of_trust, v["sgx_quote"].value, unhex(v["message"])))
        return True
    ensures = [valid_verdict_is_the_quote_elements]


@contract("admin/attestation_utils.py", "get_root_of_trust", serves=["C08"])
class GetRootOfTrust(Contract):
    assume_only = True
    assumptions = ["get_root_of_trust(path) returns an x509 element built from the PEM found at the path / URL, or raises (file and "
                   "network access not verified)"]
    params = dict(path=STR_)
    result = X509
    pure = True
    raises = {"Exception": Exc()}


@contract("admin/verify_sgx_attestation.py", "do_verify_attestation", serves=["C08"])
class VerifySgxAttestation(Contract):
    params = dict(options=OPTIONS)
    max_paths = 20000
    exception_serves = ()
    ghost_frame = ["stdout_log"]
    callee_contracts = {("admin/certificate_v1.py", "HSMCertificate.from_jsonfile"): FromJsonFileV2,
                        ("admin/certificate_v1.py", "HSMCertificate.validate_and_get_values"): ValidateV2}
    assumptions = ["ASSUMED for this command: HSMCertificate.from_jsonfile returns a version-2 certificate or raises; the version-2 "
                   "validate_and_get_values (NOT verified: unbounded element names) yields no / an invalid / a valid verdict for the target quote whose "
                   "value is the quote element's get_value(); 'the chain is valid' appears below only as that assumed verdict "
                   "(certv2.quote_chain_valid, uninterpreted)"]

    def root_of_trust_validates_itself(root_of_trust, g):
        return (cert_loads(pem_of(root_of_trust._message)) and within_validity(pem_of(root_of_trust._message), g.clock_now)
                and issued_by(pem_of(root_of_trust._message), pem_of(root_of_trust._message)))
    def quote_verdict_was_valid(att_cert, root_of_trust, sgx_quote, powhsm_message):
        return v2_chain_valid(att_cert, root_of_trust, sgx_quote.value, powhsm_message._raw_value)
    def message_is_well_formed_and_vouches_for_the_operators_keys(powhsm_message, pubkeys_map):
        m = powhsm_message._raw_value
        return (powhsm_header(m) and len(m) == HEADER_LEN + BODY_LEN and n_keys(pubkeys_map) > 0
                and m[47:79] == sha256(keys_blob(map_of(pubkeys_map), n_keys(pubkeys_map))))
    at_exit = [root_of_trust_validates_itself, quote_verdict_was_valid, message_is_well_formed_and_vouches_for_the_operators_keys]

    # printed values: MRENCLAVE / MRSIGNER at the Intel offsets of the signed quote (48 + 64, 48 + 128), the message
    # fields at the documented offsets of the signed custom message
    def printed_hash(arg_ss, pubkeys_map=None, pubkeys_output=None):
        if is_str(arg_ss):
            return True
        n = len(pubkeys_output)
        keys_hash = sha256(keys_blob(map_of(pubkeys_map), n_keys(pubkeys_map)))
        return arg_ss[0] == "powHSM verified with public keys:" and arg_ss[1 + n] == "Hash: " + hexs(keys_hash)
    def printed_enclave_identity(arg_ss, sgx_quote=None, pubkeys_output=None):
        if is_str(arg_ss):
            return True
        n = len(pubkeys_output)
        q = sgx_quote.value
        return (arg_ss[1 + n + 2] == "Installed powHSM MRENCLAVE: " + hexs(q[112:144])
                and arg_ss[1 + n + 3] == "Installed powHSM MRSIGNER: " + hexs(q[176:208]))
    def printed_message_fields(arg_ss, powhsm_message=None, pubkeys_output=None):
        if is_str(arg_ss):
            return True
        n = len(pubkeys_output)
        m = powhsm_message._raw_value
        return (arg_ss[1 + n + 6] == "UD value: " + hexs(m[15:47])
                and arg_ss[1 + n + 7] == "Best block: " + hexs(m[79:111])
                and arg_ss[1 + n + 8] == "Last transaction signed: " + hexs(m[111:119]))
    def printed_timestamp(arg_ss, powhsm_message=None, pubkeys_output=None):
        if is_str(arg_ss):
            return True
        m = powhsm_message._raw_value
        return arg_ss[1 + len(pubkeys_output) + 9] == "Timestamp: " + dec(be_value(m[119:127]))
    at_calls = {"head": [printed_hash, printed_enclave_identity, printed_message_fields, printed_timestamp]}
    raises = {"Exception": Exc()}

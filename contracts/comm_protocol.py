"""comm/protocol.py: gate, validators, dispatch (C02 C03)."""
from .common import *
from spec.requests import *       # noqa
from .ledger_protocol import PINOBJ, PERR, PINT

V2 = NEW("ledger.protocol:HSM2ProtocolLedger", PINOBJ, DONGLE)
BASE = ["C02", "C03"]


class _Validator(Contract):
    self_spec = V2
    params = dict(request=JSONOV())
    result = INT_
    pure = True

    def is_object(request): return jtag(request) == T_DICT
    requires = [is_object]


@contract("comm/protocol.py", "HSM2Protocol._validate_advance_blockchain", serves=BASE)
class ValidateAdvance(_Validator):
    def verdict(result, request):
        blocks_ok = (jhas(request, "blocks") and jtag(request["blocks"]) == T_LIST and jlen(request["blocks"]) > 0
                     and forall_int(0, jlen(request["blocks"]), lambda i: jtag(jitem(request["blocks"], i)) == T_STR))
        return (implies(not blocks_ok, result == -204)
                and implies(blocks_ok, result == 0 or result == -205)
                and implies(result == 0, jhas(request, "brothers") and jtag(request["brothers"]) == T_LIST
                            and jlen(request["brothers"]) == jlen(request["blocks"])))
    ensures = [verdict]


@contract("comm/protocol.py", "HSM2Protocol._validate_update_ancestor_block", serves=BASE)
class ValidateUpdate(_Validator):
    def verdict(result, request):
        blocks_ok = (jhas(request, "blocks") and jtag(request["blocks"]) == T_LIST and jlen(request["blocks"]) > 0
                     and forall_int(0, jlen(request["blocks"]), lambda i: jtag(jitem(request["blocks"], i)) == T_STR))
        return (result == 0) == blocks_ok and (result == 0 or result == -204)
    ensures = [verdict]


@contract("comm/protocol.py", "HSM2Protocol._validate_signer_heartbeat", serves=BASE)
class ValidateSignerHeartbeat(_Validator):
    def verdict(result, request):
        good = (jhas(request, "udValue") and jtag(request["udValue"]) == T_STR and is_hex(jstr(request["udValue"]))
                and len(unhex(jstr(request["udValue"]))) == 16)
        return (result == 0) == good and (result == 0 or result == -301)
    ensures = [verdict]


@contract("comm/protocol.py", "HSM2Protocol._validate_ui_heartbeat", serves=BASE)
class ValidateUIHeartbeat(_Validator):
    def verdict(result, request):
        good = (jhas(request, "udValue") and jtag(request["udValue"]) == T_STR and is_hex(jstr(request["udValue"]))
                and len(unhex(jstr(request["udValue"]))) == 32)
        return (result == 0) == good and (result == 0 or result == -301)
    ensures = [verdict]

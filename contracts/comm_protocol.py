"""comm/protocol.py: gate, validators, dispatch (C02 C03)."""
from .common import *
from spec.requests import *       # noqa
from .ledger_protocol import PINOBJ, PERR, PINT, proto_invariant

V2 = NEW("ledger.protocol:HSM2ProtocolLedger", PINOBJ, DONGLE, _comm_issue=BOOL_)
BASE = ["C02", "C03"]


class _Validator(Contract):
    self_spec = V2
    params = dict(request=JSONOV())
    result = INT_
    pure = True

    def is_object(request): return jtag(request) == T_DICT
    requires = [is_object]


@contract("comm/protocol.py", "HSM2Protocol._validate_advance_blockchain", serves=BASE)
class ValidateAdvance(_Validator):
    def verdict(result, request):
        blocks_ok = (jhas(request, "blocks") and jtag(request["blocks"]) == T_LIST and jlen(request["blocks"]) > 0
                     and forall_int(0, jlen(request["blocks"]), lambda i: jtag(jitem(request["blocks"], i)) == T_STR))
        return (implies(not blocks_ok, result == -204)
                and implies(blocks_ok, result == 0 or result == -205)
                and implies(result == 0, brothers_ok(request)) and implies(blocks_ok and brothers_ok(request), result == 0))
    ensures = [verdict]


@contract("comm/protocol.py", "HSM2Protocol._validate_update_ancestor_block", serves=BASE)
class ValidateUpdate(_Validator):
    def verdict(result, request):
        blocks_ok = (jhas(request, "blocks") and jtag(request["blocks"]) == T_LIST and jlen(request["blocks"]) > 0
                     and forall_int(0, jlen(request["blocks"]), lambda i: jtag(jitem(request["blocks"], i)) == T_STR))
        return (result == 0) == blocks_ok and (result == 0 or result == -204)
    ensures = [verdict]


@contract("comm/protocol.py", "HSM2Protocol._validate_signer_heartbeat", serves=BASE)
class ValidateSignerHeartbeat(_Validator):
    def verdict(result, request):
        good = (jhas(request, "udValue") and jtag(request["udValue"]) == T_STR and is_hex(jstr(request["udValue"]))
                and len(unhex(jstr(request["udValue"]))) == 16)
        return (result == 0) == good and (result == 0 or result == -301)
    ensures = [verdict]


@contract("comm/protocol.py", "HSM2Protocol._validate_ui_heartbeat", serves=BASE)
class ValidateUIHeartbeat(_Validator):
    def verdict(result, request):
        good = (jhas(request, "udValue") and jtag(request["udValue"]) == T_STR and is_hex(jstr(request["udValue"]))
                and len(unhex(jstr(request["udValue"]))) == 32)
        return (result == 0) == good and (result == 0 or result == -301)
    ensures = [verdict]


# ---- key id / auth / message / sign / getPubKey validators --------------------------------------------------------
path_syntax = tm_FunDecl = None
from pyvc import terms as _tm
from pyvc.terms import STR as _STR, BOOL as _BOOL
_path_syntax = _tm.FunDecl("bip32.path_syntax", [_STR], _BOOL)


@native
def path_syntax(ip, st, s):
    """the key id grammar of comm/bip32.py (m/ followed by exactly five decimal elements, each optionally
    hardened): an uninterpreted predicate whose definition is the contract of BIP32Path.__init__"""
    from pyvc.values import to_term, as_value
    return as_value("bool", _path_syntax(to_term(s)))


@contract("comm/bip32.py", "BIP32Path.__init__", serves=BASE + ["C01", "C13"])
class PathInit(Contract):
    assume_only = True
    assumptions = ["BIP32Path.__init__: assumed contract (string parsing not yet verified): raises ValueError exactly when "
                   "the key id is not m/ + five decimal elements; establishes the class invariant of BIP32Path"]
    self_spec = OBJ("comm.bip32:BIP32Path")
    params = dict(spec=STR_, nelements=CONST(5))
    pure = True
    modifies_self = dict(_elements=PYLIST(ELEM, ELEM, ELEM, ELEM, ELEM))

    def wellformed(self, spec): return path_syntax(spec) and path_wf(self)
    ensures = [wellformed]
    def rejected(spec): return not path_syntax(spec)
    raises = {"ValueError": Exc(args=[STR_], post=[rejected])}


def keyid_ok(request):
    return jhas(request, "keyId") and jtag(request["keyId"]) == T_STR and path_syntax(jstr(request["keyId"]))


@contract("comm/protocol.py", "HSM2Protocol._validate_get_pubkey", serves=BASE)
class ValidateGetPubkey(_Validator):
    pure = True
    inline_callees = ("HSM2Protocol._validate_key_id",)

    def verdict(result, request, old):
        return (result == 0) == keyid_ok(old.request) and (result == 0 or result == -103)
    def key_id_replaced_by_path(result, request):
        if result == 0:
            return is_instance(request["keyId"], BIP32PATH) and path_wf(request["keyId"])
        return True
    ensures = [verdict, key_id_replaced_by_path]


BIP32PATH = REPO("comm.bip32:BIP32Path")


@contract("comm/protocol.py", "HSM2Protocol._validate_sign", serves=BASE)
class ValidateSign(_Validator):
    inline_callees = ("HSM2Protocol._validate_key_id", "HSM2Protocol._validate_auth", "HSM2Protocol._validate_message")
    max_paths = 6000

    def verdict(result, request, old):
        r = old.request
        return (implies(not keyid_ok(r), result == -103)
                and implies(keyid_ok(r) and jhas(r, "auth") and not valid_auth(r["auth"]), result == -101)
                and implies(keyid_ok(r) and (not jhas(r, "auth") or valid_auth(r["auth"]))
                            and not (jhas(r, "message") and valid_message_any(r["message"])), result == -102)
                and implies(keyid_ok(r) and sign_validated(r), result == 0))
    def key_id_replaced_by_path(result, request):
        if result == 0:
            return is_instance(request["keyId"], BIP32PATH) and path_wf(request["keyId"])
        return True
    ensures = [verdict, key_id_replaced_by_path]


# ---- the gate and the dispatch -------------------------------------------------------------------------------
from spec.protocol_doc import in_docset      # noqa
from .hsm2dongle_basic import ok             # noqa


def code_of(result):
    return result["errorcode"]


def known_command(c):
    return (c == "version" or c == "sign" or c == "getPubKey" or c == "advanceBlockchain" or c == "resetAdvanceBlockchain"
            or c == "blockchainState" or c == "updateAncestorBlock" or c == "blockchainParameters"
            or c == "signerHeartbeat" or c == "uiHeartbeat")


@contract("comm/protocol.py", "HSM2Protocol.__internal_handle_request", serves=["C02", "C03", "C04", "C11", "C13", "C01"])
class InternalHandleRequest(Contract):
    self_spec = V2
    params = dict(request=JSONOV())
    result = PYDICT(errorcode=INT_)
    modifies_self = dict(_comm_issue=BOOL_)
    max_paths = 20000
    exception_serves = ("C03",)
    # validators mutate the request (keyId -> BIP32Path): they are inlined here and verified separately
    inline_callees = ("HSM2Protocol._validate_sign", "HSM2Protocol._validate_get_pubkey",
                      "HSM2Protocol._validate_advance_blockchain", "HSM2Protocol._validate_update_ancestor_block",
                      "HSM2Protocol._validate_signer_heartbeat", "HSM2Protocol._validate_ui_heartbeat",
                      "HSM2Protocol._validate_key_id", "HSM2Protocol._validate_auth", "HSM2Protocol._validate_message")

    requires = [proto_invariant]

    # ---- C03: one JSON object with an integer error code
    @only("C03")
    def reply_has_integer_errorcode(result): return is_int(result["errorcode"])
    # ---- C02: the generic gate, as docs/protocol.md "Generic errors" prescribes
    @only("C02")
    def gate(result, old):
        r = old.request
        c = code_of(result)
        return (implies(jtag(r) != T_DICT, c == -901)
                and implies(jtag(r) == T_DICT and not jhas(r, "command"), c == -902)
                and implies(jtag(r) == T_DICT and jhas(r, "command") and not jeq_str(r["command"], "version")
                            and not jhas(r, "version"), c == -902)
                and implies(jtag(r) == T_DICT and jhas(r, "command") and jhas(r, "version") and not jeq_int(r["version"], 5)
                            and (jeq_str(r["command"], "version") or True), c == -904 or c == -902)
                and implies(jtag(r) == T_DICT and jhas(r, "command") and (jhas(r, "version") and jeq_int(r["version"], 5))
                            and not (jtag(r["command"]) == T_STR and known_command(jstr(r["command"]))), c == -903))
    @only("C02")
    def rejected_requests_never_reach_the_device(g, old):
        """every return taken before the operation is dispatched (gate or validator rejection) has sent nothing"""
        return ghost_same_log(g, old.g)
    at_exit_if_unbound = [("operation_result", rejected_requests_never_reach_the_device)]
    ensures = [reply_has_integer_errorcode, gate]
    def device_outside_protocol_or_repair(g, old): return field(old.self, "_comm_issue") or classify(g) == K_OTHER
    def only_during_repair(old): return field(old.self, "_comm_issue")
    raises = {PERR: Exc(args=[STR_], post=[device_outside_protocol_or_repair]), PINT: Exc(post=[only_during_repair])}


# ---- one element of a key id (added after seed C02-4: the path grammar above stays an assumed contract, but the element
# parser it is made of is verified against the documented element grammar: decimal digits, optionally ONE trailing quote)
from pyvc import libmodels as _LM
from pyvc.terms import INT as _INT
_isdecimal = _tm.FunDecl("str.isdecimal", [_STR], _BOOL)


def _isdecimal_of(st, s):
    """str.isdecimal as an uninterpreted predicate (exact on concrete strings); what is assumed of it (A-LIB), for every
    term it is applied to on the code side AND on the specification side: a string of decimal characters is non-empty
    and is an integer literal in base 10 with a non-negative value"""
    from pyvc.values import to_term, Sym, is_sym
    if not is_sym(s):
        return s.isdecimal()
    t = to_term(s)
    st.assume(_tm.Implies(_isdecimal(t), _tm.And(_tm.Lt(_tm.Int(0), _tm.Len(t)), _LM.int_literal(t, _tm.Int(10)),
                                                  _tm.Le(_tm.Int(0), _LM.int_of_str(t, _tm.Int(10))))))
    return Sym("bool", _isdecimal(t))


@_LM.register_external("str.isdecimal")
def _str_isdecimal(ip, st, args, kwargs):
    (s,) = args
    yield st, _isdecimal_of(st, s)


@native
def isdecimal(ip, st, s):
    return _isdecimal_of(st, s)


@native
def int10(ip, st, s):
    from pyvc.values import to_term, as_value
    return as_value("int", _LM.int_of_str(to_term(s), _tm.Int(10)))


@contract("comm/bip32.py", "BIP32Element.__init__", serves=["C02"])
class ElementInit(Contract):
    self_spec = OBJ("comm.bip32:BIP32Element")
    params = dict(spec=STR_)
    pure = True
    modifies_self = dict(_index=INT_)

    def decimal_with_at_most_one_quote(self, spec):
        n = len(spec)
        if n == 0:
            return False
        if spec[n - 1] == "'":
            return isdecimal(spec[:n - 1]) and int10(spec[:n - 1]) < 2147483648 and self._index == 2147483648 + int10(spec[:n - 1])
        return isdecimal(spec) and int10(spec) < 2147483648 and self._index == int10(spec)
    ensures = [decimal_with_at_most_one_quote]

    def not_an_element(spec):
        n = len(spec)
        if n == 0:
            return True
        if spec[n - 1] == "'":
            return not isdecimal(spec[:n - 1]) or int10(spec[:n - 1]) >= 2147483648
        return not isdecimal(spec) or int10(spec) >= 2147483648
    raises = {"ValueError": Exc(args=[STR_], post=[not_an_element])}

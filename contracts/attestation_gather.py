"""Gathering side of C15 (partial): what the Ledger attestation command reads from the device is what it puts into the
certificate.  HSM2Dongle.get_ui_attestation: the UI message is the concatenation, in order, of the pages the device
returned; application hash and signature are the device's answers verbatim."""
from .common import *
from .hsm2dongle_basic import ok
from .hsm2dongle_state import frame_some, ans

CMD_UI_ATT = 0x50
OP_UD_VALUE, OP_GET_MSG, OP_GET, OP_APP_HASH = 0x01, 0x02, 0x03, 0x04


def sent(g, old, k):
    return g.log[len(old.g.log) + k]


@contract("ledger/hsm2dongle.py", "HSM2Dongle.get_ui_attestation", serves=["C15"])
class GetUiAttestation(Contract):
    self_spec = DONGLE
    params = dict(ud_value_hex=STR_)
    result = PYDICT(app_hash=STR_, message=STR_, signature=STR_)
    modifies_self = dict(last_comm_exception=OPAQUE("last_comm_exception"))
    unwind = {0: 5}        # at most MAX_PAGES_UI_ATT_MESSAGE = 4 pages; a fifth iteration can only raise
    exception_serves = ()
    max_paths = 4000

    def exchange_sequence(ud_value_hex, g, old):
        """application hash, UD value, message pages 0, 1, ... in order, then the signature"""
        n = g.nx - old.g.nx
        pages = n - 3
        return (frame_some(g, old) and ok(g) and 1 <= pages and pages <= 4
                and sent(g, old, 0) == apdu_of(CMD_UI_ATT, bytes([OP_APP_HASH]))
                and sent(g, old, 1) == apdu_of(CMD_UI_ATT, bytes([OP_UD_VALUE]) + unhex(ud_value_hex))
                and forall_int(0, pages, lambda k: sent(g, old, 2 + k) == apdu_of(CMD_UI_ATT, bytes([OP_GET_MSG, k])))
                and sent(g, old, n - 1) == apdu_of(CMD_UI_ATT, bytes([OP_GET])))
    def answers_verbatim(result, g, old):
        n = g.nx - old.g.nx
        return (result["app_hash"] == hexs(ans(g, old, 0)[3:]) and result["signature"] == hexs(ans(g, old, n - 1)[3:]))
    def message_is_the_pages_in_order(result, g, old):
        pages = g.nx - old.g.nx - 3
        p0 = ans(g, old, 2)[4:]
        p1 = ans(g, old, 3)[4:]
        p2 = ans(g, old, 4)[4:]
        p3 = ans(g, old, 5)[4:]
        return result["message"] == hexs(ite(pages == 1, p0, ite(pages == 2, p0 + p1, ite(pages == 3, p0 + p1 + p2, p0 + p1 + p2 + p3))))
    def last_page_is_flagged_last(g, old):
        pages = g.nx - old.g.nx - 3
        return (ans(g, old, 1 + pages)[3] == 0
                and forall_int(0, pages - 1, lambda k: ans(g, old, 2 + k)[3] != 0))
    ensures = [exchange_sequence, answers_verbatim, message_is_the_pages_in_order, last_page_is_flagged_last]

    # gathering from a genuine device must SUCCEED: an exception is allowed only for a reason - the UD value is not hex,
    # an exchange failed, a page answer is too short to carry its flag, or the device still flags "more" on its fourth page
    def only_for_a_reason(ud_value_hex, g, old):
        n = g.nx - old.g.nx
        return (not is_hex(ud_value_hex) or classify(g) != K_OK
                or (n >= 3 and len(g.last_resp) < 4)        # a page answer without its "more" flag: not a genuine device
                or (n == 6 and ok(g) and ans(g, old, 2)[3] != 0 and ans(g, old, 3)[3] != 0 and ans(g, old, 4)[3] != 0
                    and ans(g, old, 5)[3] != 0))
    raises = {"Exception": Exc(post=[only_for_a_reason])}


# ------------------------------------------------------------------------------------------ the Ledger attestation command
from .admin_cmds import OPTS, ADMINERR                          # noqa: E402
from .certificate_v1 import CERT, cert_wf                       # noqa: E402
from .verify_attestation import FromJsonFile                    # noqa: E402,F401  (assumed loader: a version-1 certificate)
import spec.cli_ext                                             # noqa: E402,F401

ATT = PYDICT(app_hash=STR_, message=STR_, signature=STR_)
POWHSM_ATT = PYDICT(app_hash=STR_, envelope=STR_, message=STR_, signature=STR_)


@contract("admin/misc.py", "get_ud_value_for_attestation", serves=["C15"])
class GetUdValue(Contract):
    assume_only = True
    assumptions = ["get_ud_value_for_attestation returns a 32-byte hex string or raises (network access not verified)"]
    params = dict(user_provided_ud_source=ONEOF(NONE_, STR_))
    result = STR_
    pure = True

    def hex32(result): return is_hex(result) and len(unhex(result)) == 32
    ensures = [hex32]
    raises = {"Exception": Exc()}


@contract("ledger/hsm2dongle.py", "HSM2Dongle.get_powhsm_attestation", serves=["C15"])
class GetPowHsmAttestation(Contract):
    assume_only = True
    assumptions = ["HSM2Dongle.get_powhsm_attestation (hsm2dongle_cmds/powhsm_attestation.py: paging with legacy framing) is NOT under "
                   "contract: assumed to return the device's signer attestation as a dict of hex strings, or to raise"]
    self_spec = DONGLE
    params = dict(ud_value_hex=STR_)
    result = POWHSM_ATT
    modifies_self = dict(last_comm_exception=OPAQUE("last_comm_exception"))
    raises = {"Exception": Exc()}


@contract("admin/certificate_v1.py", "HSMCertificate.save_to_jsonfile", serves=["C15"])
class SaveToJsonFile(Contract):
    assume_only = True
    assumptions = ["HSMCertificate.save_to_jsonfile writes to_dict() as JSON (json.dumps and the file write are not verified; the element-level "
                   "to_dict contracts are under C16)"]
    self_spec = CERT
    params = dict(path=STR_)
    pure = True
    raises = {"Exception": Exc()}


@native
def element_is(ip, st, m, name, message, signature, tweak, signed_by):
    """the finite element map m holds, under `name`, an element with exactly these fields"""
    from spec.certs import entries
    from pyvc import terms as tm
    from pyvc.values import to_term, as_value
    ent = entries(st, m)
    if name not in ent:
        return False
    p, f = ent[name]
    from spec.certs import sb_is
    return as_value("bool", tm.And(p, tm.Eq(f["name"], tm.Str(name)), tm.Eq(f["message"], to_term(message)),
                                   tm.Eq(f["signature"], to_term(signature)), f["has_tweak"], tm.Eq(f["tweak"], to_term(tweak)),
                                   sb_is(f["signed_by"], signed_by)))


@contract("admin/ledger_attestation.py", "do_attestation", serves=["C15"])
class DoLedgerAttestation(Contract):
    """the certificate that is saved carries, as elements "ui" and "signer" (both certified by "attestation"), exactly
    the message, signature and application hash the device returned, and has exactly those two targets"""
    params = dict(options=OPTS(pin=ONEOF(NONE_, STR_), output_file_path=ONEOF(NONE_, STR_),
                               attestation_certificate_file_path=ONEOF(NONE_, STR_), attestation_ud_source=ONEOF(NONE_, STR_)))
    exception_serves = ()
    max_paths = 20000
    inline_callees = ("HSMCertificateElement.__init__",)
    ghost_frame = None

    def saved_certificate_holds_the_device_answers(att_cert, ui_attestation, powhsm_attestation):
        return (element_is(att_cert._elements, "ui", ui_attestation["message"], ui_attestation["signature"],
                           ui_attestation["app_hash"], "attestation")
                and element_is(att_cert._elements, "signer", powhsm_attestation["message"], powhsm_attestation["signature"],
                               powhsm_attestation["app_hash"], "attestation")
                and len(att_cert._targets) == 2 and att_cert._targets[0] == "ui" and att_cert._targets[1] == "signer")
    at_calls = {"save_to_jsonfile": [saved_certificate_holds_the_device_answers]}
    raises = {"Exception": Exc()}

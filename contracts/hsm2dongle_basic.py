"""Contracts of the single-exchange and PIN/onboarding methods of HSM2Dongle (C04 C09 C10 C11 C13 C18)."""
from pyvc import terms as tm
from pyvc.terms import INT, BYTES
from pyvc.verify import RecSpec
from .common import *

ALL = ["C03", "C04", "C09", "C10", "C11", "C13", "C18"]

CMD_IS_ONBOARD, CMD_ECHO, CMD_GET_PUBLIC_KEY, CMD_SEND_PIN, CMD_UNLOCK, CMD_CHANGE_PIN = 0x06, 0x02, 0x04, 0x41, 0xFE, 0x08
CMD_GET_MODE, CMD_EXIT_MENU, CMD_EXIT_MENU_NO_AUTOEXEC, CMD_RESET_AB, CMD_GET_PARAMETERS = 0x43, 0xFF, 0xFA, 0x21, 0x11
CMD_SEED, CMD_WIPE, CMD_RETRIES = 0x44, 0x07, 0x45


def one(g, old, apdu):
    """exactly one exchange, of `apdu`"""
    return ghost_step(g, old.g, apdu)


def ok(g):
    return classify(g) == K_OK


# ------------------------------------------------------------------------------------------------
@contract("ledger/hsm2dongle.py", "HSM2Dongle.get_current_mode", serves=ALL)
class GetCurrentMode(Contract):
    self_spec = DONGLE
    result = ENUM("ledger.hsm2dongle:_Mode")
    modifies_self = dict(last_comm_exception=OPAQUE("last_comm_exception"))

    def exch(g, old): return one(g, old, apdu_of(CMD_GET_MODE, b""))
    def mode_is_answer(result, g):
        # an out-of-protocol link outcome is reported as UNKNOWN; otherwise the mode byte of the answer
        return (ok(g) and result == g.last_resp[1]) or (classify(g) == K_OTHER and result == 0xFF)
    ensures = [exch, mode_is_answer]

    raises = PROPAGATE(exch, skip=[ERR_DONGLE])    # a mode byte outside {2,3,4} is excluded by A-DEV-WF


@contract("ledger/hsm2dongle.py", "HSM2Dongle.echo", serves=ALL)
class Echo(Contract):
    self_spec = DONGLE
    result = BOOL_
    modifies_self = dict(last_comm_exception=OPAQUE("last_comm_exception"))

    def exch(g, old): return one(g, old, apdu_of(CMD_ECHO, bytes([0x41, 0x42, 0x43])))
    def echoed(result, g): return ok(g) and result == (g.last_resp == bytes([0x80, 0x02, 0x41, 0x42, 0x43]))
    ensures = [exch, echoed]
    raises = PROPAGATE(exch)


@contract("ledger/hsm2dongle.py", "HSM2Dongle.is_onboarded", serves=ALL)
class IsOnboarded(Contract):
    self_spec = DONGLE
    result = BOOL_
    modifies_self = dict(last_comm_exception=OPAQUE("last_comm_exception"))

    def exch(g, old): return one(g, old, apdu_of(CMD_IS_ONBOARD, b""))
    def flag(result, g): return ok(g) and result == (g.last_resp[1] == 1)
    ensures = [exch, flag]
    raises = PROPAGATE(exch)


VERSION = OBJ("ledger.version:HSM2FirmwareVersion", major=INT_, minor=INT_, patch=INT_)


@contract("ledger/hsm2dongle.py", "HSM2Dongle.get_version", serves=ALL)
class GetVersion(Contract):
    self_spec = DONGLE
    result = VERSION
    modifies_self = dict(last_comm_exception=OPAQUE("last_comm_exception"))

    def exch(g, old): return one(g, old, apdu_of(CMD_IS_ONBOARD, b""))
    def version_bytes(result, g):
        return (ok(g) and result.major == g.last_resp[2] and result.minor == g.last_resp[3]
                and result.patch == g.last_resp[4] and 0 <= result.major and result.major <= 255
                and 0 <= result.minor and result.minor <= 255 and 0 <= result.patch and result.patch <= 255)
    ensures = [exch, version_bytes]
    raises = PROPAGATE(exch)


@contract("ledger/hsm2dongle.py", "HSM2Dongle.get_retries", serves=ALL)
class GetRetries(Contract):
    self_spec = DONGLE
    result = INT_
    modifies_self = dict(last_comm_exception=OPAQUE("last_comm_exception"))

    def exch(g, old): return one(g, old, apdu_of(CMD_RETRIES, b""))
    def retries(result, g): return ok(g) and result == g.last_resp[2] and 0 <= result and result <= 255
    ensures = [exch, retries]
    raises = PROPAGATE(exch)


@contract("ledger/hsm2dongle.py", "HSM2Dongle.exit_menu", serves=ALL)
class ExitMenu(Contract):
    self_spec = DONGLE
    params = dict(autoexec=BOOL_)
    modifies_self = dict(last_comm_exception=OPAQUE("last_comm_exception"))

    def exch(autoexec, g, old):
        return one(g, old, apdu_of(ite(autoexec, CMD_EXIT_MENU, CMD_EXIT_MENU_NO_AUTOEXEC), bytes([0, 0])))
    def answered(g): return ok(g)
    ensures = [exch, answered]
    raises = PROPAGATE(exch)


@contract("ledger/hsm2dongle.py", "HSM2Dongle.exit_app", serves=ALL)
class ExitApp(Contract):
    self_spec = DONGLE
    modifies_self = dict(last_comm_exception=OPAQUE("last_comm_exception"))

    def exch(g, old): return one(g, old, apdu_of(CMD_EXIT_MENU, b""))
    def answered(g): return ok(g)
    ensures = [exch, answered]
    raises = PROPAGATE(exch)


@contract("ledger/hsm2dongle.py", "HSM2Dongle.reset_advance_blockchain", serves=ALL)
class ResetAdvance(Contract):
    self_spec = DONGLE
    result = BOOL_
    modifies_self = dict(last_comm_exception=OPAQUE("last_comm_exception"))

    def exch(g, old): return one(g, old, apdu_of(CMD_RESET_AB, bytes([0x01])))
    def done(result, g): return ok(g) and result and g.last_resp[2] == 0x02
    ensures = [exch, done]
    raises = PROPAGATE(exch)         # a wrong op in the answer is excluded by A-DEV-WF


# ---- PIN -----------------------------------------------------------------------------------------
SEQ_BYTES_SORT = tm.SeqOf(BYTES)


def _pin_apdu(p, k):
    return tm.SeqLit([tm.Int(0x80), tm.Int(CMD_SEND_PIN), k, tm.Nth(p, k)], INT)


# pin_apdus(p, k): the k SEND_PIN APDUs [0x80, 0x41, j, p[j]] for j < k, in order
pin_apdus = RecSpec("pin_apdus", [BYTES], SEQ_BYTES_SORT,
                    base=lambda p: tm.SeqEmpty(SEQ_BYTES_SORT),
                    step=lambda p, k, prev: tm.Concat(prev, tm.SeqUnit(_pin_apdu(p, k))),
                    # lemma (induction on k): k APDUs
                    lemma=lambda p, k, t: tm.Eq(tm.Len(t), tm.Ite(tm.Le(k, tm.Int(0)), tm.Int(0), k)))


def final_pin_of(pin, prepend_length):
    return ite(prepend_length, bytes([len(pin)]) + pin, pin)


@contract("ledger/hsm2dongle.py", "HSM2Dongle._send_pin", serves=["C09", "C10", "C18", "C03", "C04", "C11"])
class SendPin(Contract):
    self_spec = DONGLE
    params = dict(pin=BYTES_, prepend_length=BOOL_)
    modifies_self = dict(last_comm_exception=OPAQUE("last_comm_exception"))

    def pre_len(pin): return len(pin) <= 255
    requires = [pre_len]

    def inv_log(i, final_pin, g, old):
        return (0 <= i and i <= len(final_pin)
                and g.log == old.g.log + pin_apdus(final_pin, i)
                and g.nx == old.g.nx + i and len(g.resps) == len(old.g.resps) + i and prefix_of(old.g.resps, g.resps)
                and g.cnt == upd(old.g.cnt, CMD_SEND_PIN, sel(old.g.cnt, CMD_SEND_PIN) + i)
                and g.conn == old.g.conn and g.disc == old.g.disc)
    def inv_final(final_pin, pin, prepend_length): return final_pin == final_pin_of(pin, prepend_length)
    invariants = {0: [inv_log, inv_final]}
    def var_remaining(i, final_pin): return len(final_pin) - i
    variants = {0: var_remaining}

    def all_sent(pin, prepend_length, g, old):
        fp = final_pin_of(pin, prepend_length)
        return (g.log == old.g.log + pin_apdus(fp, len(fp)) and g.nx == old.g.nx + len(fp)
                and len(g.resps) == len(old.g.resps) + len(fp) and prefix_of(old.g.resps, g.resps)
                and g.cnt == upd(old.g.cnt, CMD_SEND_PIN, sel(old.g.cnt, CMD_SEND_PIN) + len(fp))
                and g.conn == old.g.conn and g.disc == old.g.disc)
    ensures = [all_sent]

    def only_pin_so_far(pin, prepend_length, g, old):
        """on failure: some prefix of the SEND_PIN sequence was sent and nothing else"""
        fp = final_pin_of(pin, prepend_length)
        n = g.nx - old.g.nx
        return (1 <= n and n <= len(fp) and g.log == old.g.log + pin_apdus(fp, n)
                and len(g.resps) == len(old.g.resps) + n and prefix_of(old.g.resps, g.resps)
                and g.cnt == upd(old.g.cnt, CMD_SEND_PIN, sel(old.g.cnt, CMD_SEND_PIN) + n)
                and g.conn == old.g.conn and g.disc == old.g.disc)
    raises = PROPAGATE(only_pin_so_far)


@contract("ledger/hsm2dongle.py", "HSM2Dongle.unlock", serves=["C09", "C18", "C03", "C04", "C11"])
class Unlock(Contract):
    self_spec = DONGLE
    params = dict(pin=BYTES_)
    result = BOOL_
    modifies_self = dict(last_comm_exception=OPAQUE("last_comm_exception"))

    @only("C09", "C10", "C03", "C04", "C11")      # (an operator-typed any-PIN longer than 255 bytes is outside C18's subject)
    def pre_len(pin): return len(pin) <= 255
    requires = [pre_len]

    def unlock_sent_once(pin, g, old):
        return (g.log == old.g.log + pin_apdus(pin, len(pin)) + [apdu_of(CMD_UNLOCK, bytes([0, 0]))]
                and g.cnt == upd(upd(old.g.cnt, CMD_SEND_PIN, sel(old.g.cnt, CMD_SEND_PIN) + len(pin)),
                                 CMD_UNLOCK, sel(old.g.cnt, CMD_UNLOCK) + 1)
                and g.nx == old.g.nx + len(pin) + 1 and monotone(g, old)
                and g.conn == old.g.conn and g.disc == old.g.disc)
    def accepted_iff_nonzero(result, g): return ok(g) and result == (g.last_resp[2] != 0)
    ensures = [unlock_sent_once, accepted_iff_nonzero]

    def at_most_one_unlock(g, old):
        return (sel(g.cnt, CMD_UNLOCK) <= sel(old.g.cnt, CMD_UNLOCK) + 1
                and sel(g.cnt, CMD_CHANGE_PIN) == sel(old.g.cnt, CMD_CHANGE_PIN)
                and sel(g.cnt, CMD_SEED) == sel(old.g.cnt, CMD_SEED) and sel(g.cnt, CMD_WIPE) == sel(old.g.cnt, CMD_WIPE)
                and g.conn == old.g.conn and g.disc == old.g.disc and monotone(g, old))
    def at_most_the_pin_bytes(pin, g, old):
        return sel(g.cnt, CMD_SEND_PIN) <= sel(old.g.cnt, CMD_SEND_PIN) + len(pin)
    raises = PROPAGATE(at_most_one_unlock, at_most_the_pin_bytes)


@contract("ledger/hsm2dongle.py", "HSM2Dongle.new_pin", serves=["C10", "C18", "C03", "C04", "C11"])
class NewPin(Contract):
    self_spec = DONGLE
    params = dict(pin=BYTES_)
    result = BOOL_
    modifies_self = dict(last_comm_exception=OPAQUE("last_comm_exception"))

    @only("C09", "C10", "C03", "C04", "C11")
    def pre_len(pin): return len(pin) <= 254
    requires = [pre_len]

    def sequence(pin, g, old):
        fp = bytes([len(pin)]) + pin
        n = g.nx - old.g.nx
        return (1 <= n and n <= len(fp) + 1 and monotone(g, old) and g.conn == old.g.conn and g.disc == old.g.disc
                and sel(g.cnt, CMD_UNLOCK) == sel(old.g.cnt, CMD_UNLOCK)
                and (g.log == old.g.log + pin_apdus(fp, n)
                     or (n == len(fp) + 1 and g.log == old.g.log + pin_apdus(fp, len(fp)) + [apdu_of(CMD_CHANGE_PIN, b"")])))
    def true_means_acknowledged(result, pin, g, old):
        fp = bytes([len(pin)]) + pin
        return implies(result, ok(g) and g.last_cmd == CMD_CHANGE_PIN
                       and sel(g.cnt, CMD_CHANGE_PIN) == sel(old.g.cnt, CMD_CHANGE_PIN) + 1
                       and g.log == old.g.log + pin_apdus(fp, len(fp)) + [apdu_of(CMD_CHANGE_PIN, b"")])
    def change_pin_at_most_once(g, old):
        return (sel(g.cnt, CMD_CHANGE_PIN) >= sel(old.g.cnt, CMD_CHANGE_PIN)
                and sel(g.cnt, CMD_CHANGE_PIN) <= sel(old.g.cnt, CMD_CHANGE_PIN) + 1)
    def false_means_invalid_pin(result, g): return implies(not result, classify(g) == K_ERR and g.last_sw == 0x69A0)
    ensures = [sequence, true_means_acknowledged, false_means_invalid_pin, change_pin_at_most_once]

    def x_err_not_invalid_pin(exc, g): return g.last_sw != 0x69A0
    raises = PROPAGATE(sequence, change_pin_at_most_once)
    raises[ERR_RESULT] = Exc(args=[INT_], post=[x_err, sequence, x_err_not_invalid_pin, change_pin_at_most_once])

"""comm/bitcoin.py rests on python-bitcoinlib (bitcoin.core), which is ABSENT from this sandbox: its functions
are used through assumed contracts only (A-BTC); see C14 in DESIGN.md."""
from pyvc import terms as tm
from pyvc.terms import STR, BYTES
from .common import *

btc_unsigned = tm.FunDecl("btc.unsigned_tx", [BYTES], BYTES)     # the C14 transformation on serialized txs


@native
def unsigned_of(ip, st, raw_hex):
    from pyvc.values import to_term, as_value, unhex
    return as_value("bytes", btc_unsigned(unhex(to_term(raw_hex))))


@contract("comm/bitcoin.py", "get_unsigned_tx", serves=["C14", "C01", "C03"])
class GetUnsignedTx(Contract):
    assume_only = True
    assumptions = ["A-BTC: get_unsigned_tx returns hex of a transaction or raises (python-bitcoinlib absent)"]
    params = dict(raw_tx_hex=STR_, hex=CONST(True))
    result = STR_
    pure = True

    def hex_of_unsigned(result, raw_tx_hex): return is_hex(result) and unhex(result) == unsigned_of(raw_tx_hex) and len(unhex(result)) > 0
    ensures = [hex_of_unsigned]
    raises = {"Exception": Exc(args=[STR_])}


@contract("comm/bitcoin.py", "get_tx_hash", serves=["C14", "C01", "C03"])
class GetTxHash(Contract):
    assume_only = True
    assumptions = ["A-BTC: get_tx_hash returns a string or raises"]
    params = dict(raw_tx_hex=STR_)
    result = STR_
    pure = True
    raises = {"Exception": Exc(args=[STR_])}


# ---------------------------------------------------------------------------------------------- C14: the clearing step
from spec.btc_lib import script_ops, same_outpoint, TXIN   # noqa: E402


@contract("comm/bitcoin.py", "_clear_all_but_last_op_from_scriptsig", serves=["C14"])
class ClearAllButLastOp(Contract):
    """the repository's own part of the C14 transformation, per input (library calls: A-BTCLIB)"""
    params = dict(txin=TXIN)
    pure = True
    assumptions = ["A-BTCLIB: CMutableTxIn / CMutableTxIn.from_txin / list(CScript) / CScript(list) as assumed contracts over an "
                   "abstract operation list (python-bitcoinlib is absent from the sandbox)"]

    def script_was_not_empty(txin): return len(script_ops(txin.scriptSig)) > 0
    def same_number_of_operations(result, txin): return len(script_ops(result.scriptSig)) == len(script_ops(txin.scriptSig))
    def all_but_last_are_empty_pushes(result, txin):
        return forall_int(0, len(script_ops(txin.scriptSig)) - 1, lambda k: script_ops(result.scriptSig)[k] == 0)
    def last_operation_is_kept(result, txin):
        n = len(script_ops(txin.scriptSig))
        return script_ops(result.scriptSig)[n - 1] == script_ops(txin.scriptSig)[n - 1]
    def outpoint_and_sequence_number_are_kept(result, txin):
        return same_outpoint(result.prevout, txin.prevout) and result.nSequence == txin.nSequence
    ensures = [script_was_not_empty, same_number_of_operations, all_but_last_are_empty_pushes, last_operation_is_kept,
               outpoint_and_sequence_number_are_kept]
    # "has an input with an empty script ... is answered -102": the helper must refuse, so that get_unsigned_tx raises
    def script_is_empty(txin): return len(script_ops(txin.scriptSig)) == 0
    raises = {"IndexError": Exc(when=script_is_empty)}

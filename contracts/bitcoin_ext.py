"""comm/bitcoin.py rests on python-bitcoinlib (bitcoin.core), which is ABSENT from this sandbox: its functions
are used through assumed contracts only (A-BTC); see C14 in DESIGN.md."""
from pyvc import terms as tm
from pyvc.terms import STR, BYTES
from .common import *

btc_unsigned = tm.FunDecl("btc.unsigned_tx", [BYTES], BYTES)     # the C14 transformation on serialized txs


@native
def unsigned_of(ip, st, raw_hex):
    from pyvc.values import to_term, as_value, unhex
    return as_value("bytes", btc_unsigned(unhex(to_term(raw_hex))))


@contract("comm/bitcoin.py", "get_unsigned_tx", serves=["C14", "C01", "C03"])
class GetUnsignedTx(Contract):
    assume_only = True
    assumptions = ["A-BTC: get_unsigned_tx returns hex of a transaction or raises (python-bitcoinlib absent)"]
    params = dict(raw_tx_hex=STR_, hex=CONST(True))
    result = STR_
    pure = True

    def hex_of_unsigned(result, raw_tx_hex): return is_hex(result) and unhex(result) == unsigned_of(raw_tx_hex) and len(unhex(result)) > 0
    ensures = [hex_of_unsigned]
    raises = {"Exception": Exc(args=[STR_])}


@contract("comm/bitcoin.py", "get_tx_hash", serves=["C14", "C01", "C03"])
class GetTxHash(Contract):
    assume_only = True
    assumptions = ["A-BTC: get_tx_hash returns a string or raises"]
    params = dict(raw_tx_hex=STR_)
    result = STR_
    pure = True
    raises = {"Exception": Exc(args=[STR_])}

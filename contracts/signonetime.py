"""signonetime.py main() (C19, second sentence): for each image given, a DER signature of compute_app_hash(image) that
verifies under the single public key written alongside; one key generated per run; the secret written nowhere.
The cryptography is assumed (A-CLI: ecdsa sign/verify soundness, fresh key generation); proved here is the wiring."""
from .common import *
from spec.hash_ext import sha256, concat_areas, areas_of
from spec.cli_ext import mentions_secret, sig_verifies, public_key_bytes, stripped, pieces, utf8_of
import spec.fs  # noqa


def app_hash_of(path):
    return sha256(concat_areas(areas_of(path), len(areas_of(path))))


def apps(g): return pieces(g.opt_app_path, ",")


def key_file_written(g, old):
    """the first write of the run: the uncompressed public key of the run's key, in hex"""
    w0 = old.g.nwrites
    return (sel(g.wpath, w0) == stripped(g.opt_publickey_path)
            and sel(g.wdata, w0) == utf8_of(hexs(public_key_bytes(g.the_key, "uncompressed"))))


def signatures_written(g, old, n):
    """for the first n images: <image>.sig holds (in hex) a signature of the image's hash that verifies under the key"""
    w0 = old.g.nwrites
    s0 = old.g.nsigs
    return forall_int(0, n, lambda j:
                      sel(g.wpath, w0 + 1 + j) == stripped(apps(g)[j]) + ".sig"
                      and sel(g.wdata, w0 + 1 + j) == utf8_of(hexs(sel(g.sig_bytes, s0 + j)))
                      and sel(g.sig_digest, s0 + j) == app_hash_of(stripped(apps(g)[j]))
                      and sig_verifies(g.the_key, sel(g.sig_digest, s0 + j), sel(g.sig_bytes, s0 + j)))


@contract("signonetime.py", "main", serves=["C19"])
class SignOneTimeMain(Contract):
    params = {}
    assumptions = ["A-CLI: argparse, sys.exit, str.split/strip, ecdsa key generation / sign_digest / to_string as assumed contracts "
                   "(spec/cli_ext.py); a signature returned by sign_digest verifies under the signing key (ecdsa.verifies)",
                   "'written nowhere' is decided as: file contents are fully specified, and no term written to a file or to "
                   "stdout mentions the secret-key bytes (syntactic taint over the VC terms)"]
    ghost_frame = ["nsigs", "sig_digest", "sig_bytes", "nwrites", "wpath", "wdata", "stdout_log", "pinfile", "pinfile_exists",
                   "fs_writes"]       # (the key and the count of generated keys are not touched by the loop)
    loop_locals = {0: dict(app_path=STR_, file=OPAQUE("file:w", path=STR_))}

    def inv_one_key_and_its_files(g, old, i):
        return (0 <= i and i <= len(apps(g)) and g.keys_generated == old.g.keys_generated + 1
                and g.nwrites == old.g.nwrites + 1 + i and g.nsigs == old.g.nsigs + i
                and key_file_written(g, old) and signatures_written(g, old, i))
    def inv_secret_stays_inside(g): return not mentions_secret(g.stdout_log) and not mentions_secret(g.wdata)
    invariants = {0: [inv_one_key_and_its_files, inv_secret_stays_inside]}

    # main never returns: it leaves through sys.exit
    def never_returns(g): return False
    ensures = [never_returns]

    def success_means_every_image_signed_with_the_one_fresh_key(exc, g, old):
        if exc.args[0] == 0:
            return (g.keys_generated == old.g.keys_generated + 1
                    and g.nwrites == old.g.nwrites + 1 + len(apps(g)) and key_file_written(g, old)
                    and signatures_written(g, old, len(apps(g))))
        return True
    def at_most_one_key_per_run(g, old): return g.keys_generated <= old.g.keys_generated + 1
    def secret_written_nowhere(g): return not mentions_secret(g.stdout_log) and not mentions_secret(g.wdata)
    raises = {"SystemExit": Exc(post=[success_means_every_image_signed_with_the_one_fresh_key, at_most_one_key_per_run,
                                      secret_written_nowhere])}

"""admin/certificate_v2.py: what survives saving a version-2 (SGX) certificate element and loading it again (C16).

An element's verdict (is_valid) is a function of its private fields (_message, _key, _auth_data, _signature,
_custom_data) and of its certifier; to_dict writes them out and _init_with_map reads them back.  The two contracts of
each element class are stated over the same fields, so the round trip is their composition:
   init(to_dict(e)).f == unhex(to_dict(e)[f]) == e.f      for every field f the verdict depends on."""
from .common import *
from spec.crypto_ext import same_p256_key
import spec.cstruct  # noqa: registers the CStruct model

AKEY = OBJ("admin.certificate_v2:HSMCertificateV2ElementSGXAttestationKey", _name=JSON_, _signed_by=JSON_, _message=BYTES_,
           _key=BYTES_, _auth_data=BYTES_, _signature=BYTES_)
QUOTE = OBJ("admin.certificate_v2:HSMCertificateV2ElementSGXQuote", _name=JSON_, _signed_by=JSON_, _message=BYTES_,
            _custom_data=BYTES_, _signature=BYTES_)


@contract("admin/certificate_v2.py", "HSMCertificateV2ElementSGXAttestationKey.to_dict", serves=["C16"])
class AttestationKeyToDict(Contract):
    self_spec = AKEY
    params = {}
    pure = True
    exception_serves = ()

    def writes_every_signed_byte(self, result):
        return (unhex(result["message"]) == self._message and unhex(result["auth_data"]) == self._auth_data
                and unhex(result["signature"]) == self._signature)
    def writes_the_same_key(self, result): return same_p256_key(unhex(result["key"]), self._key)
    def writes_the_graph_fields(self, result):
        return (same_json(result["name"], self._name) and same_json(result["signed_by"], self._signed_by)
                and result["type"] == "sgx_attestation_key")
    ensures = [writes_every_signed_byte, writes_the_same_key, writes_the_graph_fields]
    # a key that is not a P-256 point makes the key property raise: nothing is written
    raises = {"Exception": Exc()}


@contract("admin/certificate_v2.py", "HSMCertificateV2ElementSGXQuote.to_dict", serves=["C16"])
class QuoteToDict(Contract):
    self_spec = QUOTE
    params = {}
    pure = True

    def writes_every_signed_byte(self, result):
        return (unhex(result["message"]) == self._message and unhex(result["custom_data"]) == self._custom_data
                and unhex(result["signature"]) == self._signature)
    def writes_the_graph_fields(self, result):
        return (same_json(result["name"], self._name) and same_json(result["signed_by"], self._signed_by)
                and result["type"] == "sgx_quote")
    ensures = [writes_every_signed_byte, writes_the_graph_fields]


def field_read_back(self, m, f, key):
    return f == unhex(jstr(m[key]))


@contract("admin/certificate_v2.py", "HSMCertificateV2ElementSGXAttestationKey._init_with_map", serves=["C16"])
class AttestationKeyInit(Contract):
    self_spec = OBJ("admin.certificate_v2:HSMCertificateV2ElementSGXAttestationKey")
    params = dict(element_map=JSON_)
    pure = True
    exception_serves = ()

    def reads_back_what_was_written(self, element_map):
        return (self._message == unhex(jstr(element_map["message"])) and self._key == unhex(jstr(element_map["key"]))
                and self._auth_data == unhex(jstr(element_map["auth_data"]))
                and self._signature == unhex(jstr(element_map["signature"])))
    ensures = [reads_back_what_was_written]
    raises = {"Exception": Exc()}


@contract("admin/certificate_v2.py", "HSMCertificateV2ElementSGXQuote._init_with_map", serves=["C16"])
class QuoteInit(Contract):
    self_spec = OBJ("admin.certificate_v2:HSMCertificateV2ElementSGXQuote")
    params = dict(element_map=JSON_)
    pure = True
    exception_serves = ()

    def reads_back_what_was_written(self, element_map):
        return (self._message == unhex(jstr(element_map["message"]))
                and self._custom_data == unhex(jstr(element_map["custom_data"]))
                and self._signature == unhex(jstr(element_map["signature"])))
    ensures = [reads_back_what_was_written]
    raises = {"Exception": Exc()}

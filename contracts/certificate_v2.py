"""admin/certificate_v2.py: what survives saving a version-2 (SGX) certificate element and loading it again (C16).

An element's verdict (is_valid) is a function of its private fields (_message, _key, _auth_data, _signature,
_custom_data) and of its certifier; to_dict writes them out and _init_with_map reads them back.  The two contracts of
each element class are stated over the same fields, so the round trip is their composition:
   init(to_dict(e)).f == unhex(to_dict(e)[f]) == e.f      for every field f the verdict depends on."""
from .common import *
from pyvc.values import is_sym, Unsupported
from spec.crypto_ext import same_p256_key
import spec.cstruct  # noqa: registers the CStruct model

AKEY = OBJ("admin.certificate_v2:HSMCertificateV2ElementSGXAttestationKey", _name=JSON_, _signed_by=JSON_, _message=BYTES_,
           _key=BYTES_, _auth_data=BYTES_, _signature=BYTES_)
QUOTE = OBJ("admin.certificate_v2:HSMCertificateV2ElementSGXQuote", _name=JSON_, _signed_by=JSON_, _message=BYTES_,
            _custom_data=BYTES_, _signature=BYTES_)


@contract("admin/certificate_v2.py", "HSMCertificateV2ElementSGXAttestationKey.to_dict", serves=["C16"])
class AttestationKeyToDict(Contract):
    self_spec = AKEY
    params = {}
    pure = True
    exception_serves = ()

    def writes_every_signed_byte(self, result):
        return (unhex(result["message"]) == self._message and unhex(result["auth_data"]) == self._auth_data
                and unhex(result["signature"]) == self._signature)
    def writes_the_same_key(self, result): return same_p256_key(unhex(result["key"]), self._key)
    def writes_the_graph_fields(self, result):
        return (same_json(result["name"], self._name) and same_json(result["signed_by"], self._signed_by)
                and result["type"] == "sgx_attestation_key")
    ensures = [writes_every_signed_byte, writes_the_same_key, writes_the_graph_fields]
    # a key that is not a P-256 point makes the key property raise: nothing is written
    raises = {"Exception": Exc()}


@contract("admin/certificate_v2.py", "HSMCertificateV2ElementSGXQuote.to_dict", serves=["C16"])
class QuoteToDict(Contract):
    self_spec = QUOTE
    params = {}
    pure = True

    def writes_every_signed_byte(self, result):
        return (unhex(result["message"]) == self._message and unhex(result["custom_data"]) == self._custom_data
                and unhex(result["signature"]) == self._signature)
    def writes_the_graph_fields(self, result):
        return (same_json(result["name"], self._name) and same_json(result["signed_by"], self._signed_by)
                and result["type"] == "sgx_quote")
    ensures = [writes_every_signed_byte, writes_the_graph_fields]


def field_read_back(self, m, f, key):
    return f == unhex(jstr(m[key]))


@contract("admin/certificate_v2.py", "HSMCertificateV2ElementSGXAttestationKey._init_with_map", serves=["C16"])
class AttestationKeyInit(Contract):
    self_spec = OBJ("admin.certificate_v2:HSMCertificateV2ElementSGXAttestationKey")
    params = dict(element_map=JSON_)
    pure = True
    exception_serves = ()

    def reads_back_what_was_written(self, element_map):
        return (self._message == unhex(jstr(element_map["message"])) and self._key == unhex(jstr(element_map["key"]))
                and self._auth_data == unhex(jstr(element_map["auth_data"]))
                and self._signature == unhex(jstr(element_map["signature"])))
    ensures = [reads_back_what_was_written]
    raises = {"Exception": Exc()}


@contract("admin/certificate_v2.py", "HSMCertificateV2ElementSGXQuote._init_with_map", serves=["C16"])
class QuoteInit(Contract):
    self_spec = OBJ("admin.certificate_v2:HSMCertificateV2ElementSGXQuote")
    params = dict(element_map=JSON_)
    pure = True
    exception_serves = ()

    def reads_back_what_was_written(self, element_map):
        return (self._message == unhex(jstr(element_map["message"]))
                and self._custom_data == unhex(jstr(element_map["custom_data"]))
                and self._signature == unhex(jstr(element_map["signature"])))
    ensures = [reads_back_what_was_written]
    raises = {"Exception": Exc()}


# ------------------------------------------------------------------------------------------ C07: the element predicates
from spec.crypto_ext import CERTIFIER, certifier_signed, is_p256_point, p256_raw, is_key_of      # noqa: E402
from spec.hash_ext import sha256                                                       # noqa: E402

# Oracle for "its report data": the Intel SGX structure layouts (sgx_report_body_t is 384 bytes with report_data at
# offset 320; sgx_quote_t is a 48-byte header followed by the report body, 432 bytes in all) - constants taken from the
# SGX SDK headers, NOT read from the repository's struct definitions, so that an edit of those definitions is noticed.
REPORT_BODY_SIZE, REPORT_DATA_IN_BODY = 384, 320
QUOTE_SIZE, REPORT_DATA_IN_QUOTE = 432, 48 + 320


@contract("admin/certificate_v2.py", "HSMCertificateV2ElementSGXQuote.is_valid", serves=["C07"])
class QuoteIsValid(Contract):
    """"the quote is signed by that attestation key and its report data begins with SHA-256(custom data)" """
    self_spec = QUOTE
    params = dict(certifier=CERTIFIER)
    result = BOOL_
    pure = True
    assumptions = ["A-CRYPTO(P-256): ecdsa verify_digest as an uninterpreted predicate (returns True or raises)", "A-HASH", "A-CSTRUCT"]

    def exactly_the_two_conditions(self, certifier, result):
        off = REPORT_DATA_IN_QUOTE
        return result == (len(self._message) >= QUOTE_SIZE and self._message[off:off + 32] == sha256(self._custom_data)
                          and certifier_signed(certifier, self._signature, sha256(self._message)))
    ensures = [exactly_the_two_conditions]


@contract("admin/certificate_v2.py", "HSMCertificateV2ElementSGXAttestationKey.is_valid", serves=["C07"])
class AttestationKeyIsValid(Contract):
    """"the attestation-key element's report body is signed by its certifier's P-256 key and its report data begins with
    SHA-256(key || auth data)" """
    self_spec = AKEY
    params = dict(certifier=CERTIFIER)
    result = BOOL_
    pure = True
    assumptions = ["A-CRYPTO(P-256)", "A-HASH", "A-CSTRUCT"]

    def exactly_the_two_conditions(self, certifier, result):
        off = REPORT_DATA_IN_BODY
        return result == (is_p256_point(self._key) and len(self._message) >= REPORT_BODY_SIZE
                          and self._message[off:off + 32] == sha256(p256_raw(self._key) + self._auth_data)
                          and certifier_signed(certifier, self._signature, sha256(self._message)))
    ensures = [exactly_the_two_conditions]


@contract("admin/certificate_v2.py", "HSMCertificateV2ElementSGXAttestationKey.get_pubkey", serves=["C07"])
class AttestationKeyGetPubkey(Contract):
    """the key an attestation-key element certifies with is the key it carries (or none, if that is not a P-256 point)"""
    self_spec = AKEY
    params = {}
    pure = True
    exception_serves = ()

    def is_the_carried_key(self, result): return is_key_of(result, self._key)
    ensures = [is_the_carried_key]
    raises = {"Exception": Exc()}


# ---- x509 element
from spec.x509_ext import pem_of, cert_loads, within_validity, issued_by      # noqa: E402

X509 = OBJ("admin.certificate_v2:HSMCertificateV2ElementX509", _name=JSON_, _signed_by=JSON_, _message=BYTES_, _certificate=NONE_)


@contract("admin/certificate_v2.py", "HSMCertificateV2ElementX509.is_valid", serves=["C07"])
class X509IsValid(Contract):
    """"every X.509 element is inside its validity period and is signed by the key of the certificate that certifies it";
    only another X.509 element can certify one"""
    self_spec = X509
    params = dict(certifier=ONEOF(X509, AKEY))
    result = BOOL_
    modifies_self = dict(_certificate=OPAQUE("x509cert-cache"))
    assumptions = ["A-X509: cryptography's load_pem_x509_certificate / validity attributes / public_key().verify and datetime.now as "
                   "assumed contracts (spec/x509_ext.py)"]

    def validity_window_and_issuer_signature(self, certifier, result, g):
        if is_instance(certifier, X509CLS):
            return result == (cert_loads(pem_of(self._message)) and cert_loads(pem_of(certifier._message))
                              and within_validity(pem_of(self._message), g.clock_now)
                              and issued_by(pem_of(certifier._message), pem_of(self._message)))
        return result == False          # noqa: E712
    ensures = [validity_window_and_issuer_signature]


X509CLS = REPO("admin.certificate_v2:HSMCertificateV2ElementX509")


@contract("admin/certificate_v2.py", "HSMCertificateV2ElementSGXQuote.get_value", serves=["C07"])
class QuoteGetValue(Contract):
    """"When valid, the reported custom message and quote fields are exactly the signed ones": the value handed to the
    verify command is the custom data is_valid bound to the report data, and the quote structure over the signed bytes"""
    self_spec = QUOTE
    params = {}
    pure = True
    exception_serves = ()

    def reports_the_signed_custom_data(self, result): return result["message"] == hexs(self._custom_data)
    def reports_the_signed_quote(self, result): return struct_over(result["sgx_quote"], self._message, 0)
    ensures = [reports_the_signed_custom_data, reports_the_signed_quote]
    raises = {"ValueError": Exc()}       # a message shorter than the quote structure cannot be parsed


@native
def struct_over(ip, st, s, data, offset):
    """s is a CStruct view (spec/cstruct.py) of exactly `data` at `offset`"""
    from pyvc.values import Opaque
    if not (isinstance(s, Opaque) and s.tag == "cstruct"):
        return False
    a = s.attrs
    return a["offset"] == offset and (a["value"] is data or (is_sym(a["value"]) and is_sym(data) and a["value"].term is data.term))

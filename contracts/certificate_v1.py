"""admin/certificate_v1.py: structural parse (C16) and chain validation (C06) of version-1 (Ledger) certificates."""
from .common import *
from spec.certs import no_tweak, NAMES, elements_wf, target_ok, link_ok, verdict_of, results_wf, has_verdict, value_of, element_wf, ROOT_PUBKEY

ELEM = OBJ("admin.certificate_v1:HSMCertificateElement", _name=STR_, _signed_by=JSON_, _tweak=JSON_,
           _message=STR_, _signature=STR_)
ELEMENTS = FMAP(NAMES, ELEM)
ROOT = OBJ("admin.certificate_v1:HSMCertificateRoot", pubkey=CONST(ROOT_PUBKEY))


@contract("admin/certificate_v1.py", "HSMCertificateElement.is_valid", serves=["C06", "C16", "C07"])
class ElementIsValid(Contract):
    """verified (not assumed): the body computes the property's link condition over the crypto primitives, and every
    library failure ends in False"""
    assumptions = ["A-CRYPTO: secp256k1 (PublicKey parse / serialize / tweak_add / ecdsa_deserialize / ecdsa_verify) and hmac.new as "
                   "uninterpreted functions (spec/certs.py); sha256 inside ecdsa_verify is part of secp.ecdsa_verify"]
    self_spec = ELEM
    params = dict(certifier=ONEOF(ELEM, ROOT))
    result = BOOL_
    pure = True

    def constructed(self, certifier):
        return element_wf(self) and element_wf(certifier)
    requires = [constructed]

    def is_the_link_condition(self, certifier, result): return result == link_ok(self, certifier)
    ensures = [is_the_link_condition]


CERT = OBJ("admin.certificate_v1:HSMCertificate", _targets=JSON_, _elements=ELEMENTS)


def cert_wf(self):
    """class invariant established by _parse: elements stored under their own (valid) name; every target names an
    element with a finite, cycle-free path to the root of trust"""
    return (elements_wf(self._elements) and jtag(self._targets) == 5
            and forall_int(0, jlen(self._targets), lambda k: target_ok(self._elements, jitem(self._targets, k))))


@contract("admin/certificate_v1.py", "HSMCertificate._parse", serves=["C16", "C06"])
class Parse(Contract):
    self_spec = OBJ("admin.certificate_v1:HSMCertificate", _targets=CONST([]), _elements=CONST({}))
    params = dict(certificate_map=JSON_)
    pure = True
    exception_serves = ("C16",)
    max_paths = 30000
    inline_callees = ("HSMCertificateElement.__init__",)     # items of a hostile "elements" value need not be JSON objects
    loop_modifies_self = {0: dict(_elements=ELEMENTS)}
    unwind = {2: 5}          # a path visits distinct names: the 5th iteration can only raise (obligation `unwind`)

    def inv_elements(self): return elements_wf(self._elements)
    def inv_targets_so_far(self, i):
        return (elements_wf(self._elements) and jtag(self._targets) == 5
                and forall_int(0, i, lambda k: target_ok(self._elements, jitem(self._targets, k))))
    invariants = {0: [inv_elements], 1: [inv_targets_so_far]}

    def usable_certificate(self): return cert_wf(self)
    ensures = [usable_certificate]
    # "reports an error": any exception class counts
    raises = {"Exception": Exc()}


@contract("admin/certificate_v1.py", "HSMCertificateElement.get_value", serves=["C06"])
class GetValue(Contract):
    """the part of the signed message docs/attestation.md designates per element kind (the whole message for ui and signer)"""
    self_spec = ELEM
    params = {}
    result = STR_
    pure = True

    def constructed(self): return element_wf(self)
    requires = [constructed]

    def is_the_designated_part(self, result): return result == value_of(self) and is_hex(result)
    ensures = [is_the_designated_part]


VERDICT = TUPLE(BOOL_, STR_, JSON_)     # abstraction of (True, value, tweak) | (False, name): see spec.certs.tuple_matches


@contract("admin/certificate_v1.py", "HSMCertificate.validate_and_get_values", serves=["C06", "C16"])
class ValidateAndGetValues(Contract):
    self_spec = CERT
    params = dict(root_of_trust=ROOT)
    result = FMAP(NAMES, VERDICT)
    pure = True
    max_paths = 30000
    loop_locals = {0: dict(result=FMAP(NAMES, VERDICT))}
    unwind = {1: 4, 2: 4}    # both walks follow a cycle-free path over at most four elements (obligations `unwind`)

    def loaded(self): return cert_wf(self)
    requires = [loaded]

    def inv_verdicts_so_far(self, result, i, root_of_trust):
        return (results_wf(result, self._elements, root_of_trust)
                and forall_int(0, i, lambda k: has_verdict(result, jitem(self._targets, k))))
    invariants = {0: [inv_verdicts_so_far]}

    @only("C06")
    def every_verdict_is_the_specified_one(self, result, root_of_trust): return results_wf(result, self._elements, root_of_trust)
    def every_target_has_a_verdict(self, result):
        return forall_int(0, jlen(self._targets), lambda k: has_verdict(result, jitem(self._targets, k)))
    ensures = [every_verdict_is_the_specified_one, every_target_has_a_verdict]


# ------------------------------------------------------------------------------------------- C16: v1 element save / load
@contract("admin/certificate_v1.py", "HSMCertificateElement.to_dict", serves=["C16"])
class ElementToDict(Contract):
    """what is written for an element is exactly what its verdict depends on (name, message, signature, certifier,
    tweak); together with ElementInit (what is read back) this is the element-level round trip"""
    self_spec = ELEM
    params = {}
    pure = True

    def constructed(self): return element_wf(self)
    requires = [constructed]

    def writes_every_field(self, result):
        return (result["name"] == self._name and result["message"] == self._message and result["signature"] == self._signature
                and same_json(result["signed_by"], self._signed_by))
    def writes_the_tweak_iff_there_is_one(self, result):
        if "tweak" in result:
            return jtag(self._tweak) != 0 and same_json(result["tweak"], self._tweak)
        return jtag(self._tweak) == 0
    ensures = [writes_every_field, writes_the_tweak_iff_there_is_one]


@contract("admin/certificate_v1.py", "HSMCertificateElement.__init__", serves=["C16"])
class ElementInit(Contract):
    self_spec = OBJ("admin.certificate_v1:HSMCertificateElement")
    params = dict(element_map=JSON_)
    pure = True
    exception_serves = ()
    modifies_self = dict(_name=JSON_, _signed_by=JSON_, _tweak=JSON_, _message=JSON_, _signature=JSON_)

    def reads_back_every_field(self, element_map):
        return (same_json(self._name, element_map["name"]) and same_json(self._message, element_map["message"])
                and same_json(self._signature, element_map["signature"]) and same_json(self._signed_by, element_map["signed_by"])
                and implies(jhas(element_map, "tweak"), same_json(self._tweak, element_map["tweak"]))
                and implies(not jhas(element_map, "tweak"), no_tweak(self._tweak)))
    def constructed(self): return element_wf(self)
    ensures = [reads_back_every_field, constructed]
    raises = {"Exception": Exc()}

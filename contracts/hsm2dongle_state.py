"""get_blockchain_state, get_signer_parameters, connect / disconnect, heartbeat commands (C04 C11 C13)."""
from .common import *
from .hsm2dongle_basic import one, ok

CMD_GET_STATE, CMD_GET_PARAMETERS, CMD_HEARTBEAT = 0x20, 0x11, 0x60
SEL = dict(best_block=0x01, newest_valid_block=0x02, ancestor_block=0x03, ancestor_receipts_root=0x05,
           u_best_block=0x81, u_newest_valid_block=0x82, u_next_expected_block=0x84)


def frame_n(g, old, n):
    """exactly n more exchanges, earlier log untouched, no (dis)connection"""
    return (g.nx == old.g.nx + n and len(g.log) == len(old.g.log) + n and prefix_of(old.g.log, g.log)
            and len(g.resps) == len(old.g.resps) + n and prefix_of(old.g.resps, g.resps)
            and g.conn == old.g.conn and g.disc == old.g.disc)


def frame_some(g, old):
    return (g.nx >= old.g.nx + 1 and len(g.log) == len(old.g.log) + (g.nx - old.g.nx) and prefix_of(old.g.log, g.log)
            and len(g.resps) == len(g.log) - len(old.g.log) + len(old.g.resps) and prefix_of(old.g.resps, g.resps)
            and g.conn == old.g.conn and g.disc == old.g.disc)


def asked(g, old, k, data):
    """the k-th exchange since entry sent GET_STATE with `data`"""
    return g.log[len(old.g.log) + k] == apdu_of(CMD_GET_STATE, data)


def ans(g, old, k):
    return g.resps[len(old.g.resps) + k]


STATE = PYDICT(**{
    "best_block": STR_, "newest_valid_block": STR_, "ancestor_block": STR_, "ancestor_receipts_root": STR_,
    "updating.best_block": STR_, "updating.newest_valid_block": STR_, "updating.next_expected_block": STR_,
    "updating.total_difficulty": INT_, "updating.in_progress": BOOL_, "updating.already_validated": BOOL_,
    "updating.found_best_block": BOOL_})


@contract("ledger/hsm2dongle.py", "HSM2Dongle.get_blockchain_state", serves=["C13", "C03", "C04", "C11"])
class GetBlockchainState(Contract):
    self_spec = DONGLE
    result = STATE
    modifies_self = dict(last_comm_exception=OPAQUE("last_comm_exception"))

    def nine_queries(g, old):
        """seven hash selectors in the firmware's numbering, then difficulty, then flags"""
        return (frame_n(g, old, 9) and ok(g)
                and asked(g, old, 0, bytes([1, 0x01])) and asked(g, old, 1, bytes([1, 0x02]))
                and asked(g, old, 2, bytes([1, 0x03])) and asked(g, old, 3, bytes([1, 0x05]))
                and asked(g, old, 4, bytes([1, 0x81])) and asked(g, old, 5, bytes([1, 0x82]))
                and asked(g, old, 6, bytes([1, 0x84])) and asked(g, old, 7, bytes([2])) and asked(g, old, 8, bytes([3])))
    def hashes_verbatim(result, g, old):
        return (result["best_block"] == hexs(ans(g, old, 0)[4:]) and result["newest_valid_block"] == hexs(ans(g, old, 1)[4:])
                and result["ancestor_block"] == hexs(ans(g, old, 2)[4:])
                and result["ancestor_receipts_root"] == hexs(ans(g, old, 3)[4:])
                and result["updating.best_block"] == hexs(ans(g, old, 4)[4:])
                and result["updating.newest_valid_block"] == hexs(ans(g, old, 5)[4:])
                and result["updating.next_expected_block"] == hexs(ans(g, old, 6)[4:]))
    def hash_answers_wellformed(g, old):
        return (len(ans(g, old, 0)) == 36 and ans(g, old, 0)[3] == 0x01 and len(ans(g, old, 3)) == 36 and ans(g, old, 3)[3] == 0x05
                and len(ans(g, old, 6)) == 36 and ans(g, old, 6)[3] == 0x84)
    def difficulty_and_flags(result, g, old):
        return (result["updating.total_difficulty"] == be_int(ans(g, old, 7)[3:])
                and len(ans(g, old, 8)) == 6
                and result["updating.in_progress"] == (ans(g, old, 8)[3] != 0)
                and result["updating.already_validated"] == (ans(g, old, 8)[4] != 0)
                and result["updating.found_best_block"] == (ans(g, old, 8)[5] != 0))
    ensures = [nine_queries, hashes_verbatim, hash_answers_wellformed, difficulty_and_flags]

    def x_some(g, old): return frame_some(g, old)
    raises = PROPAGATE(x_some)       # malformed answers are excluded by A-DEV-WF: HSM2DongleError <=> K_OTHER


@native
def be_int(ip, st, b):
    from pyvc import libmodels as LM
    from pyvc.values import to_term, as_value
    return as_value("int", LM.be_int(to_term(b)))


PARAMS = OBJ("ledger.parameters:HSM2FirmwareParameters", min_required_difficulty=INT_, checkpoint=STR_,
             network=ENUM("ledger.parameters:_Network"))


@contract("ledger/hsm2dongle.py", "HSM2Dongle.get_signer_parameters", serves=["C13", "C09", "C03", "C04", "C11"])
class GetSignerParameters(Contract):
    self_spec = DONGLE
    result = PARAMS
    modifies_self = dict(last_comm_exception=OPAQUE("last_comm_exception"))

    def exch(g, old): return one(g, old, apdu_of(CMD_GET_PARAMETERS, b""))
    def layout_32_36_1(result, g):
        d = g.last_resp[3:]
        return (ok(g) and len(d) == 69 and result.checkpoint == hexs(d[0:32])
                and result.min_required_difficulty == be_int(d[32:68]) and result.network == d[68])
    ensures = [exch, layout_32_36_1]

    raises = PROPAGATE(exch)


@contract("ledger/hsm2dongle.py", "HSM2Dongle.connect", serves=["C09", "C11", "C03"])
class Connect(Contract):
    self_spec = OBJ("ledger.hsm2dongle:HSM2Dongle", logger=OPAQUE("logger"), debug=BOOL_, last_comm_exception=NONE_)
    modifies_self = dict(dongle=OPAQUE("dongle", opened=BOOL_))

    def opened_once(g, old):
        return (g.conn == old.g.conn + 1 and g.disc == old.g.disc and g.nx == old.g.nx and g.log == old.g.log
                and g.resps == old.g.resps and g.stream == old.g.stream and g.cnt == old.g.cnt)
    ensures = [opened_once]
    raises = {ERR_COMM: Exc(args=[STR_], post=[opened_once])}


@contract("ledger/hsm2dongle.py", "HSM2Dongle.disconnect", serves=["C09", "C11", "C03"])
class Disconnect(Contract):
    self_spec = OBJ("ledger.hsm2dongle:HSM2Dongle", logger=OPAQUE("logger"), debug=BOOL_, last_comm_exception=NONE_,
                    dongle=ONEOF(OPAQUE("dongle", opened=BOOL_), NONE_))

    def no_exchange(g, old):
        return (g.conn == old.g.conn and g.disc >= old.g.disc and g.disc <= old.g.disc + 1 and g.nx == old.g.nx
                and g.log == old.g.log and g.resps == old.g.resps and g.stream == old.g.stream and g.cnt == old.g.cnt)
    ensures = [no_exchange]
    def close_was_attempted(g, old): return g.disc == old.g.disc + 1
    raises = {ERR_COMM: Exc(args=[STR_], post=[no_exchange, close_was_attempted])}


# ---- heartbeats: five exchanges under command 0x60, ops UD_VALUE, GET, GET_MESSAGE, APP_HASH, PUBKEY
HB = PYDICT(pubKey=STR_, message=STR_, signature=SIG, tweak=STR_)
HB_RESULT = ONEOF(TUPLE(CONST(True), HB), TUPLE(CONST(False), INT_))


def hb_asked(g, old, k, data):
    return g.log[len(old.g.log) + k] == apdu_of(CMD_HEARTBEAT, data)


def hb_five_exchanges(result, ud_value, g, old):
    if result[0]:
        return (frame_n(g, old, 5) and ok(g)
                and hb_asked(g, old, 0, bytes([1]) + unhex(ud_value)) and hb_asked(g, old, 1, bytes([2]))
                and hb_asked(g, old, 2, bytes([3])) and hb_asked(g, old, 3, bytes([4])) and hb_asked(g, old, 4, bytes([5])))
    return True


def hb_fields(result, g, old):
    if result[0]:
        hb = result[1]
        return (hb["pubKey"] == hexs(ans(g, old, 4)[3:]) and hb["message"] == hexs(ans(g, old, 2)[3:])
                and hb["tweak"] == hexs(ans(g, old, 3)[3:]))
    return True


def hb_signature(result, g, old):
    if result[0]:
        hb = result[1]
        return (hb["signature"]._r == hexs(der_r(ans(g, old, 1)[3:]))
                and hb["signature"]._s == hexs(der_s(ans(g, old, 1)[3:])))
    return True


def hb_failure(result, g, old):
    if not result[0]:
        return frame_some(g, old) and classify(g) == K_ERR and result[1] == g.last_sw
    return True


class _Heartbeat(Contract):
    self_spec = DONGLE
    params = dict(ud_value=STR_)
    result = HB_RESULT
    modifies_self = dict(last_comm_exception=OPAQUE("last_comm_exception"))

    def pre_hex(ud_value): return is_hex(ud_value)
    requires = [pre_hex]
    ensures = [hb_five_exchanges, hb_fields, hb_signature, hb_failure]

    def x_some(g, old): return frame_some(g, old)
    raises = PROPAGATE(x_some, skip=[ERR_RESULT])


@contract("ledger/hsm2dongle.py", "HSM2Dongle.get_signer_heartbeat", serves=["C13", "C03", "C04", "C11"])
class SignerHeartbeat(_Heartbeat):
    pass


@contract("ledger/hsm2dongle.py", "HSM2Dongle.get_ui_heartbeat", serves=["C13", "C03", "C04", "C11"])
class UIHeartbeat(_Heartbeat):
    pass

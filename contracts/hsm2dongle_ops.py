"""Contracts of the command-level methods of HSM2Dongle used by the request handlers."""
from .common import *
from spec.protocol_doc import sign_named, block_named
from .hsm2dongle_basic import one, ok

CMD_SIGN, CMD_GET_PUBLIC_KEY, CMD_GET_STATE, CMD_GET_PARAMETERS = 0x02, 0x04, 0x20, 0x11
SR = REPO("ledger.hsm2dongle:_SignResponse")


@contract("ledger/hsm2dongle.py", "HSM2Dongle.get_public_key", serves=["C13", "C03", "C04", "C11", "C18"])
class GetPublicKey(Contract):
    self_spec = DONGLE
    params = dict(key_id=PATH)
    result = STR_
    modifies_self = dict(last_comm_exception=OPAQUE("last_comm_exception"))

    def pre_path(key_id): return path_wf(key_id)
    requires = [pre_path]

    def exch(key_id, g, old): return one(g, old, apdu_of(CMD_GET_PUBLIC_KEY, pathbin(key_id)))
    def whole_answer_in_hex(result, g): return ok(g) and result == hexs(g.last_resp)
    ensures = [exch, whole_answer_in_hex]
    raises = PROPAGATE(exch)


def sign_code_member(c):
    return c == -1 or c == -2 or c == -3 or c == -4 or c == -5 or c == -10


def su_message(key_id, hash):
    return apdu_of(CMD_SIGN, bytes([0x01]) + pathbin(key_id) + unhex(hash))


SIGN_RESULT = ONEOF(TUPLE(CONST(True), SIG), TUPLE(CONST(False), INT_))


@contract("ledger/hsm2dongle.py", "HSM2Dongle.sign_unauthorized", serves=["C01", "C03", "C04", "C11", "C13"])
class SignUnauthorized(Contract):
    self_spec = DONGLE
    params = dict(key_id=PATH, hash=STR_)
    result = SIGN_RESULT
    modifies_self = dict(last_comm_exception=OPAQUE("last_comm_exception"))

    def pre_path(key_id): return path_wf(key_id)
    requires = [pre_path]

    def at_most_one_message(key_id, hash, g, old):
        """the device is sent the path and the 32-byte hash in ONE message, or nothing at all"""
        return ghost_same_log(g, old.g) or (is_hex(hash) and one(g, old, su_message(key_id, hash)))
    def success(result, key_id, hash, g, old):
        if result[0]:
            return (is_hex(hash) and one(g, old, su_message(key_id, hash)) and ok(g)
                    and g.last_resp[2] == 0x81 and der_ok(g.last_resp[3:])
                    and result[1]._r == hexs(der_r(g.last_resp[3:])) and result[1]._s == hexs(der_s(g.last_resp[3:])))
        return True
    def success_whenever_device_signed(result, hash, g, old):
        if not result[0]:
            return not (is_hex(hash) and g.nx == old.g.nx + 1 and ok(g) and g.last_resp[2] == 0x81
                        and der_ok(g.last_resp[3:]))
        return True
    def failure_codes(result, hash, g, old):
        if not result[0]:
            c = result[1]
            return (sign_code_member(c)
                    and implies(not is_hex(hash), c == -5 and ghost_same_log(g, old.g))
                    and implies(is_hex(hash), g.nx == old.g.nx + 1 and (ok(g) or classify(g) == K_ERR))
                    # the documented cause "invalid key id" gets ERROR_PATH
                    and implies(is_hex(hash) and classify(g) == K_ERR and sign_named(False, 1, g.last_sw) == -103,
                                c == -1))
        return True
    ensures = [at_most_one_message, success, success_whenever_device_signed, failure_codes]

    def x_exch(key_id, hash, g, old): return is_hex(hash) and one(g, old, su_message(key_id, hash))
    raises = PROPAGATE(x_exch, skip=[ERR_RESULT])

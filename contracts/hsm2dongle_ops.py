"""Contracts of the command-level methods of HSM2Dongle used by the request handlers."""
from .common import *
from spec.protocol_doc import sign_named, block_named
from .hsm2dongle_basic import one, ok

CMD_SIGN, CMD_GET_PUBLIC_KEY, CMD_GET_STATE, CMD_GET_PARAMETERS = 0x02, 0x04, 0x20, 0x11
SR = REPO("ledger.hsm2dongle:_SignResponse")


@contract("ledger/hsm2dongle.py", "HSM2Dongle.get_public_key", serves=["C13", "C03", "C04", "C11", "C18"])
class GetPublicKey(Contract):
    self_spec = DONGLE
    params = dict(key_id=PATH)
    result = STR_
    modifies_self = dict(last_comm_exception=OPAQUE("last_comm_exception"))

    def pre_path(key_id): return path_wf(key_id)
    requires = [pre_path]

    def exch(key_id, g, old): return one(g, old, apdu_of(CMD_GET_PUBLIC_KEY, pathbin(key_id)))
    def whole_answer_in_hex(result, g): return ok(g) and result == hexs(g.last_resp)
    ensures = [exch, whole_answer_in_hex]
    raises = PROPAGATE(exch)


def sign_code_member(c):
    return c == -1 or c == -2 or c == -3 or c == -4 or c == -5 or c == -10


def su_message(key_id, hash):
    return apdu_of(CMD_SIGN, bytes([0x01]) + pathbin(key_id) + unhex(hash))


SIGN_RESULT = ONEOF(TUPLE(CONST(True), SIG), TUPLE(CONST(False), INT_))


@contract("ledger/hsm2dongle.py", "HSM2Dongle.sign_unauthorized", serves=["C01", "C03", "C04", "C11", "C13"])
class SignUnauthorized(Contract):
    self_spec = DONGLE
    params = dict(key_id=PATH, hash=STR_)
    result = SIGN_RESULT
    modifies_self = dict(last_comm_exception=OPAQUE("last_comm_exception"))

    def pre_path(key_id): return path_wf(key_id)
    requires = [pre_path]

    def at_most_one_message(key_id, hash, g, old):
        """the device is sent the path and the 32-byte hash in ONE message, or nothing at all"""
        return ghost_same_log(g, old.g) or (is_hex(hash) and one(g, old, su_message(key_id, hash)))
    def success(result, key_id, hash, g, old):
        if result[0]:
            return (is_hex(hash) and one(g, old, su_message(key_id, hash)) and ok(g)
                    and g.last_resp[2] == 0x81 and der_ok(g.last_resp[3:])
                    and result[1]._r == hexs(der_r(g.last_resp[3:])) and result[1]._s == hexs(der_s(g.last_resp[3:])))
        return True
    def success_whenever_device_signed(result, hash, g, old):
        if not result[0]:
            return not (is_hex(hash) and g.nx == old.g.nx + 1 and ok(g) and g.last_resp[2] == 0x81
                        and der_ok(g.last_resp[3:]))
        return True
    def failure_codes(result, hash, g, old):
        if not result[0]:
            c = result[1]
            return (sign_code_member(c)
                    and implies(not is_hex(hash), c == -5 and ghost_same_log(g, old.g))
                    and implies(is_hex(hash), g.nx == old.g.nx + 1 and (ok(g) or classify(g) == K_ERR))
                    # the documented cause "invalid key id" gets ERROR_PATH
                    and implies(is_hex(hash) and classify(g) == K_ERR and sign_named(False, 1, g.last_sw) == -103,
                                c == -1))
        return True
    ensures = [at_most_one_message, success, success_whenever_device_signed, failure_codes]

    def x_exch(key_id, hash, g, old): return is_hex(hash) and one(g, old, su_message(key_id, hash))
    raises = PROPAGATE(x_exch, skip=[ERR_RESULT])


# ------------------------------------------------------------------------------------------------
# sign_authorized
MODE = ENUM("ledger.hsm2dongle:SighashComputationMode")
OP_PATH, OP_BTC_TX, OP_RECEIPT, OP_MERKLE, OP_SUCCESS = 0x01, 0x02, 0x04, 0x08, 0x81
KEY_TX, KEY_RECEIPT, KEY_MERKLE = CMD_SIGN * 256 + OP_BTC_TX, CMD_SIGN * 256 + OP_RECEIPT, CMD_SIGN * 256 + OP_MERKLE


def _flat_step(nodes, k, prev):
    from pyvc import terms as tm
    from pyvc.values import unhex
    nb = unhex(tm.Nth(nodes, k))
    return tm.Concat(prev, tm.SeqUnit(tm.Len(nb)), nb)


# flat(nodes, k): concatenation over j < k of [len(node_j)] ++ node_j  (node_j = unhex(nodes[j]))
from pyvc import terms as _tm
flat = RecSpec("merkle_flat", [_tm.SeqOf(_tm.STR)], _tm.BYTES,
               base=lambda nodes: _tm.SeqEmpty(_tm.BYTES), step=_flat_step)


def tx_payload(btc_tx, mode_net, segwit, witness_script, outpoint_value):
    """LE32(7+|tx|) | mode | LE16(|extradata|) | tx | extradata ; extradata = varint(|ws|) ws LE64(value) for segwit"""
    tx = unhex(btc_tx)
    ed = ite(segwit, varint(len(unhex(witness_script))) + unhex(witness_script) + le_bytes(outpoint_value, 8), b"")
    return le_bytes(7 + len(tx), 4) + bytes([mode_net]) + le_bytes(len(ed), 2) + tx + ed


@native
def varint(ip, st, n):
    """Bitcoin CompactSize of n (A-BTC: what bitcoin.core.VarIntSerializer.serialize produces)"""
    from pyvc.values import to_term, as_value
    from spec.btc import varint_term
    return as_value("bytes", varint_term(to_term(n)))


@contract("ledger/hsm2dongle.py", "HSM2Dongle.sign_authorized", serves=["C01", "C03", "C04", "C11", "C13"])
class SignAuthorized(Contract):
    self_spec = DONGLE
    params = dict(key_id=PATH, rsk_tx_receipt=STR_, receipt_merkle_proof=LIST(STR_), btc_tx=STR_, input_index=INT_,
                  sighash_computation_mode=MODE, witness_script=ONEOF(STR_, NONE_), outpoint_value=ONEOF(INT_, NONE_))
    result = SIGN_RESULT
    modifies_self = dict(last_comm_exception=OPAQUE("last_comm_exception"))
    loop_locals = {0: dict(node_bytes=BYTES_)}
    max_paths = 4000

    def pre_path(key_id): return path_wf(key_id)
    # what the validators establish for a well-formed request (C01's hypothesis; C03 needs it proved at the call)
    @only("C03")
    def pre_input_index(input_index): return 0 <= input_index and input_index < 4294967296
    @only("C03", "C02")
    def pre_hex(rsk_tx_receipt, btc_tx): return is_hex(rsk_tx_receipt) and is_hex(btc_tx)
    @only("C03")
    def pre_segwit_fields(sighash_computation_mode, witness_script, outpoint_value):
        if sighash_computation_mode.netvalue == 1:
            if is_none(witness_script) or is_none(outpoint_value):
                return False
            return is_hex(witness_script) and 0 <= outpoint_value and outpoint_value < 18446744073709551616
        return is_none(witness_script) and is_none(outpoint_value)
    requires = [pre_path, pre_input_index, pre_hex, pre_segwit_fields]

    # ---- merkle proof framing loop
    def inv_flat(i, merkle_proof_bytes, receipt_merkle_proof, g, old):
        return (merkle_proof_bytes == bytes([len(receipt_merkle_proof)]) + flat(receipt_merkle_proof, i)
                and len(receipt_merkle_proof) <= 255)
    invariants = {0: [inv_flat]}

    # ---- C01: what the device ends up holding
    def first_message(key_id, input_index, g, old):
        """first APDU of the exchange: path and input index"""
        return (len(g.log) > len(old.g.log)
                and g.log[len(old.g.log)] == apdu_of(CMD_SIGN, bytes([OP_PATH]) + pathbin(key_id) + le_bytes(input_index, 4)))
    def tx_stream_is_prefix(btc_tx, sighash_computation_mode, witness_script, outpoint_value, g, old):
        if sighash_computation_mode.netvalue == 1:
            payload = tx_payload(btc_tx, 1, True, witness_script, outpoint_value)
        else:
            payload = tx_payload(btc_tx, 0, False, "", 0)
        n = len(sel(g.stream, KEY_TX)) - len(sel(old.g.stream, KEY_TX))
        return 0 <= n and n <= len(payload) and sel(g.stream, KEY_TX) == sel(old.g.stream, KEY_TX) + payload[0:n]
    def receipt_stream_is_prefix(rsk_tx_receipt, g, old):
        n = len(sel(g.stream, KEY_RECEIPT)) - len(sel(old.g.stream, KEY_RECEIPT))
        return (0 <= n and n <= len(unhex(rsk_tx_receipt))
                and sel(g.stream, KEY_RECEIPT) == sel(old.g.stream, KEY_RECEIPT) + unhex(rsk_tx_receipt)[0:n])
    def merkle_stream_is_prefix(receipt_merkle_proof, g, old):
        k = len(receipt_merkle_proof)
        mp = bytes([k]) + flat(receipt_merkle_proof, k)
        n = len(sel(g.stream, KEY_MERKLE)) - len(sel(old.g.stream, KEY_MERKLE))
        return (0 <= n and implies(k > 255, n == 0)
                and implies(k <= 255, n <= len(mp) and sel(g.stream, KEY_MERKLE) == sel(old.g.stream, KEY_MERKLE) + mp[0:n]))
    def success(result, btc_tx, sighash_computation_mode, witness_script, outpoint_value, rsk_tx_receipt,
                receipt_merkle_proof, g, old):
        if result[0]:
            seg = sighash_computation_mode.netvalue == 1
            if seg:
                payload = tx_payload(btc_tx, 1, True, witness_script, outpoint_value)
            else:
                payload = tx_payload(btc_tx, 0, False, "", 0)
            n = len(receipt_merkle_proof)
            return (sel(g.stream, KEY_TX) == sel(old.g.stream, KEY_TX) + payload
                    and sel(g.stream, KEY_RECEIPT) == sel(old.g.stream, KEY_RECEIPT) + unhex(rsk_tx_receipt)
                    and n <= 255
                    and sel(g.stream, KEY_MERKLE) == sel(old.g.stream, KEY_MERKLE) + bytes([n]) + flat(receipt_merkle_proof, n)
                    and ok(g) and g.last_resp[2] == OP_SUCCESS and der_ok(g.last_resp[3:])
                    and result[1]._r == hexs(der_r(g.last_resp[3:])) and result[1]._s == hexs(der_s(g.last_resp[3:])))
        return True
    # ---- C04: failures
    def failure_codes(result, g, old):
        if not result[0]:
            c = result[1]
            return (sign_code_member(c) and g.nx >= old.g.nx + 1 and (ok(g) or classify(g) == K_ERR)
                    and implies(classify(g) == K_ERR and sign_named(True, g.last_op, g.last_sw) == -103, c == -1)
                    and implies(classify(g) == K_ERR and sign_named(True, g.last_op, g.last_sw) == -102, c == -2)
                    and implies(classify(g) == K_ERR and sign_named(True, g.last_op, g.last_sw) == -101, c == -3 or c == -4))
        return True
    ensures = [first_message, tx_stream_is_prefix, receipt_stream_is_prefix, merkle_stream_is_prefix, success, failure_codes]

    def x_at_least_one(g, old): return g.nx >= old.g.nx + 1
    raises = PROPAGATE(x_at_least_one, skip=[ERR_RESULT])

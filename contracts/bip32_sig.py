from .common import *


@contract("comm/bip32.py", "BIP32Path.to_binary", serves=["C01", "C13", "C03"])
class ToBinary(Contract):
    self_spec = PATH
    params = dict(byteorder=CONST("little"))
    result = BYTES_
    pure = True

    def class_invariant(self): return path_wf(self)
    requires = [class_invariant]

    def little_endian_path(self, result): return result == pathbin(self)
    ensures = [little_endian_path]


@contract("ledger/signature.py", "HSM2DongleSignature.__init__", serves=["C01", "C13", "C03"])
class SignatureInit(Contract):
    self_spec = OBJ("ledger.signature:HSM2DongleSignature")
    params = dict(signature_bytes=BYTES_)
    pure = True
    modifies_self = dict(_r=STR_, _s=STR_)

    def parses(self, signature_bytes):
        return (der_ok(signature_bytes) and self._r == hexs(der_r(signature_bytes))
                and self._s == hexs(der_s(signature_bytes)))
    ensures = [parses]

    def malformed(signature_bytes): return not der_ok(signature_bytes)
    raises = {"ValueError": Exc(args=[STR_], post=[malformed])}

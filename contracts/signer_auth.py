"""Signer authorization (C17): message text, EIP-191 wrapping, iteration bounds, device exchange."""
from pyvc import terms as tm
from pyvc.terms import INT, STR, BYTES
from .common import *
from .hsm2dongle_basic import ok
from .block_utils import keccak_of

CMD_SIGNER_AUTH = 0x51
SV = OBJ("admin.signer_authorization:SignerVersion", _hash=STR_, _iteration=INT_)
SA = OBJ("admin.signer_authorization:SignerAuthorization", _signer_version=SV, _signatures=LIST(STR_))


def _sig_apdu(sigs, k):
    from pyvc.values import unhex
    return tm.Concat(tm.BytesLit(bytes([0x80, CMD_SIGNER_AUTH, 0x02])), unhex(tm.Nth(sigs, k)))


# sig_apdus(sigs, k): the k OP_SIGN APDUs for signatures 0..k-1, in file order
sig_apdus = RecSpec("sig_apdus", [tm.SeqOf(STR)], tm.SeqOf(BYTES),
                    base=lambda sigs: tm.SeqEmpty(tm.SeqOf(BYTES)),
                    step=lambda sigs, k, prev: tm.Concat(prev, tm.SeqUnit(_sig_apdu(sigs, k))),
                    lemma=lambda sigs, k, t: tm.Eq(tm.Len(t), tm.Ite(tm.Le(k, tm.Int(0)), tm.Int(0), k)))


def sigver_apdu(sa):
    v = sa._signer_version
    return apdu_of(CMD_SIGNER_AUTH, bytes([0x01]) + unhex(v._hash) + be_bytes(v._iteration, 2))


@contract("ledger/hsm2dongle.py", "HSM2Dongle.authorize_signer", serves=["C17"])
class AuthorizeSigner(Contract):
    self_spec = DONGLE
    params = dict(signer_authorization=SA)
    result = BOOL_
    modifies_self = dict(last_comm_exception=OPAQUE("last_comm_exception"))
    loop_locals = {0: dict(result=ONEOF(NONE_, INT_))}
    exception_serves = ("C17",)

    def class_invariants(signer_authorization):
        """what SignerVersion.__init__ and SignerAuthorization.__init__ have checked"""
        v = signer_authorization._signer_version
        s = signer_authorization._signatures
        return (is_hex(v._hash) and len(unhex(v._hash)) == 32 and 0 <= v._iteration and v._iteration < 65536
                and forall_int(0, len(s), lambda i: is_hex(s[i])))
    requires = [class_invariants]

    def inv_sent_in_file_order(i, signer_authorization, g, old):
        s = signer_authorization._signatures
        return (0 <= i and i <= len(s)
                and g.log == old.g.log + [sigver_apdu(signer_authorization)] + sig_apdus(s, i)
                and g.nx == old.g.nx + 1 + i and ok(g))
    def inv_not_yet_authorized(i, result, g):
        """no signature sent so far was answered 'authorized' (2)"""
        if is_none(result):
            return i == 0
        return i > 0 and result != 2 and result == g.last_resp[3]
    invariants = {0: [inv_sent_in_file_order, inv_not_yet_authorized]}

    def hash_then_iteration_then_signatures(signer_authorization, g, old):
        """the device is sent the hash followed by the iteration (2 bytes, big-endian), then signatures in file
        order, and nothing after the one it answers 'authorized' to"""
        s = signer_authorization._signatures
        n = g.nx - old.g.nx - 1
        return (1 <= n and n <= len(s) and g.log == old.g.log + [sigver_apdu(signer_authorization)] + sig_apdus(s, n))
    def returns_only_when_authorized(result, g): return result and ok(g) and g.last_resp[3] == 2
    ensures = [hash_then_iteration_then_signatures, returns_only_when_authorized]

    def never_authorized(signer_authorization, g, old):
        """HSM2DongleError: an out-of-protocol link outcome, or every signature was sent (possibly none) and none
        was answered 'authorized'"""
        s = signer_authorization._signatures
        return (classify(g) == K_OTHER
                or (ok(g) and g.nx == old.g.nx + 1 + len(s)
                    and g.log == old.g.log + [sigver_apdu(signer_authorization)] + sig_apdus(s, len(s))
                    and implies(len(s) > 0, g.last_resp[3] != 2)))
    def x_frame(g, old): return g.nx >= old.g.nx + 1
    raises = PROPAGATE(x_frame, skip=[ERR_DONGLE])
    raises[ERR_DONGLE] = Exc(args=[STR_], post=[x_frame, never_authorized])


# ---- the text that is signed -----------------------------------------------------------------------------------
@native
def dec(ip, st, n):
    """decimal representation of a non-negative integer"""
    from pyvc.values import to_term, as_value
    return as_value("str", tm.StrFromInt(to_term(n)))


@native
def ascii_bytes(ip, st, s):
    from pyvc.values import to_term, Sym
    from pyvc import libmodels as LM
    return Sym("bytes", LM.utf8(to_term(s)))


def signer_msg(hash_lower, iteration):
    return "RSK_powHSM_signer_" + hash_lower + "_iteration_" + dec(iteration)


@contract("admin/ledger_utils.py", "encode_eth_message", serves=["C17"])
class EncodeEthMessage(Contract):
    params = dict(msg=STR_)
    result = BYTES_
    pure = True
    exception_serves = ("C17",)

    def eip191_personal_message(result, msg):
        """"\\x19Ethereum Signed Message:\\n" + decimal length + message (ASCII)"""
        return result == ascii_bytes("\x19Ethereum Signed Message:\n" + dec(len(msg)) + msg)
    ensures = [eip191_personal_message]
    # a non-ASCII message cannot be encoded: UnicodeEncodeError (a ValueError)
    raises = {"ValueError": Exc(args=[STR_])}


@contract("admin/signer_authorization.py", "SignerVersion.get_authorization_digest", serves=["C17"])
class AuthorizationDigest(Contract):
    self_spec = SV
    result = BYTES_
    pure = True
    exception_serves = ("C17",)
    inline_callees = ("encode_eth_message",)

    def class_invariant(self): return 0 <= self._iteration and self._iteration < 65536
    requires = [class_invariant]

    def keccak_of_wrapped_message(self, result):
        m = signer_msg(self._hash, self._iteration)
        return result == keccak_of(ascii_bytes("\x19Ethereum Signed Message:\n" + dec(len(m)) + m))
    ensures = [keccak_of_wrapped_message]
    raises = {"ValueError": Exc(args=[STR_])}


@native
def lower(ip, st, s):
    from pyvc.values import to_term, Sym
    from pyvc import libmodels as LM
    return Sym("str", LM.str_lower(to_term(s)))


@contract("admin/signer_authorization.py", "SignerVersion.__init__", serves=["C17"])
class SignerVersionInit(Contract):
    self_spec = OBJ("admin.signer_authorization:SignerVersion")
    params = dict(hash=STR_, iteration=ONEOF(INT_, STR_, BOOL_, NONE_))
    pure = True
    modifies_self = dict(_hash=STR_, _iteration=INT_)
    exception_serves = ("C17",)

    def accepted(self, hash, iteration):
        return (is_hex(hash) and len(unhex(hash)) == 32 and self._hash == lower(hash)
                and 0 <= self._iteration and self._iteration < 65536)
    def integer_iteration_kept(self, iteration):
        if is_int(iteration):
            return self._iteration == iteration
        return True
    def only_integers_and_numerals_are_iterations(iteration):
        """"a malformed ... iteration ... is refused": a boolean, null or any other type is not an iteration"""
        return is_int(iteration) or is_str(iteration)
    ensures = [accepted, integer_iteration_kept, only_integers_and_numerals_are_iterations]

    def refused(hash, iteration):
        """malformed hash or iteration: ValueError"""
        if is_int(iteration):
            return not (is_hex(hash) and len(unhex(hash)) == 32) or iteration < 0 or iteration >= 65536
        return True
    raises = {"ValueError": Exc(args=[STR_], post=[refused])}


# ---- save / load: what is written is what the constructors read back ----------------------------------------------
SIGVER = OBJ("admin.signer_authorization:SignerVersion", _hash=STR_, _iteration=INT_)
SIGAUTH = OBJ("admin.signer_authorization:SignerAuthorization", _signer_version=SIGVER, _signatures=LIST(STR_))


@contract("admin/signer_authorization.py", "SignerVersion.to_dict", serves=["C17"])
class SignerVersionToDict(Contract):
    self_spec = SIGVER
    params = {}
    pure = True

    def writes_hash_and_iteration(self, result): return result["hash"] == self._hash and result["iteration"] == self._iteration
    ensures = [writes_hash_and_iteration]


@contract("admin/signer_authorization.py", "SignerAuthorization.to_dict", serves=["C17"])
class SignerAuthorizationToDict(Contract):
    """"authorization files survive a save/load cycle unchanged": what to_dict writes is exactly the version the signer
    version and the signatures in order; from_jsonfile feeds the same three entries to the constructors (verified:
    SignerVersion.__init__) - the JSON text and the file in between are json.dumps / json.loads (assumed)"""
    self_spec = SIGAUTH
    params = {}
    pure = True
    inline_callees = ("SignerVersion.to_dict",)

    def writes_version_signer_and_signatures_in_order(self, result):
        return (result["version"] == 1 and result["signer"]["hash"] == self._signer_version._hash
                and result["signer"]["iteration"] == self._signer_version._iteration
                and result["signatures"] == self._signatures)
    ensures = [writes_version_signer_and_signatures_in_order]

"""comm/server.py: one request line -> exactly one reply (C03)."""
from .common import *
from spec.server_io import reply_is_json_object_with_int_errorcode
from .comm_protocol import V2, proto_invariant

RHERR = "comm.server:RequestHandlerError"
RHSHUT = "comm.server:RequestHandlerShutdown"


@contract("comm/protocol.py", "HSM2Protocol.handle_request", serves=["C03", "C02"])
class HandleRequest(Contract):
    self_spec = V2
    params = dict(request=JSONOV())
    result = PYDICT(errorcode=INT_)
    modifies_self = dict(_comm_issue=BOOL_)
    requires = [proto_invariant]

    def reply_has_integer_errorcode(result): return is_int(result["errorcode"])
    ensures = [reply_has_integer_errorcode]
    def device_outside_protocol_or_repair(g, old): return field(old.self, "_comm_issue") or classify(g) == K_OTHER
    def only_during_repair(old): return field(old.self, "_comm_issue")
    raises = {"comm.protocol:HSM2ProtocolError": Exc(args=[STR_], post=[device_outside_protocol_or_repair]),
              "comm.protocol:HSM2ProtocolInterrupt": Exc(post=[only_during_repair])}


HANDLER = OBJ("comm.server:_RequestHandler", protocol=V2, logger=OPAQUE("logger"))


@contract("comm/server.py", "_RequestHandler.handle", serves=["C03"])
class Handle(Contract):
    self_spec = HANDLER
    params = dict(client_address=STR_, rfile=OPAQUE("rfile"), wfile=OPAQUE("wfile"))
    exception_serves = ("C03",)

    def protocol_invariant(self): return proto_invariant(self.protocol)
    def nothing_replied_yet(g): return not g.reply_started
    requires = [protocol_invariant, nothing_replied_yet]

    def one_reply_with_errorcode(g, old):
        """for every request line: the reply text is a JSON object with an integer errorcode, written as one line
        (text + newline: two writes) unless the client's socket fails"""
        return (g.writes <= old.g.writes + 2
                and implies(g.reply_started, reply_is_json_object_with_int_errorcode(g)))
    ensures = [one_reply_with_errorcode]

    # the manager stops only when the device left its protocol, or while repairing a failed link
    def device_outside_protocol(self, g, old):
        return (field(field(old.self, "protocol"), "_comm_issue") or classify(g) == K_OTHER) and one_reply_or_none(g, old)
    def only_during_repair(self, g, old): return field(field(old.self, "protocol"), "_comm_issue")
    raises = {RHERR: Exc(args=[STR_], post=[device_outside_protocol]), RHSHUT: Exc(args=[STR_], post=[only_during_repair])}


def one_reply_or_none(g, old):
    return g.writes <= old.g.writes + 2

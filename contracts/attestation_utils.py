"""admin/attestation_utils.py (C08): layout and exact-length check of the powHSM attestation message; public keys hash."""
from .common import *
import spec.regex_ext   # noqa
import spec.cstruct     # noqa
from pyvc.libmodels import be_int as _be_int
from pyvc.values import to_term as _to_term, as_value as _as_value


@native
def be_value(ip, st, b):
    return _as_value("int", _be_int(_to_term(b)))


# docs/attestation.md: "POWHSM:5.x::" + platform(3) ud_value(32) public_keys_hash(32) best_block(32) last_signed_tx(8) timestamp(8)
HEADER_LEN, BODY_LEN = 12, 3 + 32 + 32 + 32 + 8 + 8


def powhsm_header(v):
    return (len(v) >= HEADER_LEN and v[0:7] == b"POWHSM:" and v[7] == 0x35 and v[8] != 10 and 0x30 <= v[9] and v[9] <= 0x39
            and v[10] == 0x3a and v[11] == 0x3a)


@contract("admin/attestation_utils.py", "PowHsmAttestationMessage.__init__", serves=["C08"])
class PowHsmMessageInit(Contract):
    self_spec = OBJ("admin.attestation_utils:PowHsmAttestationMessage")
    params = dict(value=BYTES_, offset=CONST(0), little=CONST(True), name=STR_)
    pure = True
    exception_serves = ()
    modifies_self = dict(name=STR_, version=STR_, platform=STR_, timestamp=INT_, _raw_value=BYTES_, _offset=INT_, _little=BOOL_)

    def is_a_view_of_the_message_body(self, value): return self._raw_value == value and self._offset == HEADER_LEN
    def documented_header_and_exact_length(self, value): return powhsm_header(value) and len(value) == HEADER_LEN + BODY_LEN
    def fields_at_the_documented_offsets(self, value):
        return (self.ud_value == value[15:47] and self.public_keys_hash == value[47:79] and self.best_block == value[79:111]
                and self.last_signed_tx == value[111:119] and self.timestamp == be_value(value[119:127]) and self.timestamp >= 0)
    ensures = [is_a_view_of_the_message_body, documented_header_and_exact_length, fields_at_the_documented_offsets]
    raises = {"Exception": Exc()}


# ------------------------------------------------------------------------------------------------ public keys
from spec.pubkeys_ext import PUBKEYS, keys_blob, map_of, n_keys       # noqa: E402
from spec.hash_ext import sha256, Sha256Obj                            # noqa: E402

HASHOBJ = OBJ(Sha256Obj, acc=BYTES_)


@contract("admin/attestation_utils.py", "compute_pubkeys_hash", serves=["C08"])
class ComputePubkeysHash(Contract):
    """"SHA-256 of the operator's public keys (uncompressed, in path order)" """
    params = dict(pubkeys_map=PUBKEYS)
    result = BYTES_
    pure = True
    assumptions = ["A-SORT: sorted(m.keys()) is the list of the map's paths in lexicographic order (spec/pubkeys_ext.py)", "A-HASH",
                   "A-CRYPTO: PublicKey.serialize as an uninterpreted function"]
    loop_locals = {0: dict(pubkeys_hash=HASHOBJ)}

    def inv_hashed_so_far(pubkeys_hash, pubkeys_map, i): return pubkeys_hash.acc == keys_blob(map_of(pubkeys_map), i)
    invariants = {0: [inv_hashed_so_far]}

    def hash_of_all_keys_in_path_order(result, pubkeys_map):
        return n_keys(pubkeys_map) > 0 and result == sha256(keys_blob(map_of(pubkeys_map), n_keys(pubkeys_map)))
    ensures = [hash_of_all_keys_in_path_order]
    raises = {"admin.misc:AdminError": Exc()}

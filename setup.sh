#!/bin/sh
# Builds /verif/.venv offline: python 3.12 (needed to parse /repo), z3-solver + cvc5 wheels,
# and a .pth making the repository's own dependencies (installed in /venv) importable for replay.
set -e
cd "$(dirname "$0")"
if [ -x .venv/bin/python ] && .venv/bin/python -c "import z3" 2>/dev/null; then exit 0; fi
rm -rf .venv
/venv/bin/python -m venv --without-pip .venv
SP=.venv/lib/python3.12/site-packages
/venv/bin/python -m pip install -q --no-index --find-links /opt/veriftools/wheels --target "$SP" z3-solver cvc5 >/dev/null 2>&1 || \
/venv/bin/python -m pip install -q --no-index --find-links /opt/veriftools/wheels --target "$SP" z3-solver
echo "import site; site.addsitedir('/venv/lib/python3.12/site-packages')" > "$SP/zz_repo_deps.pth"
.venv/bin/python -c "import z3; print('z3', z3.get_version_string())"

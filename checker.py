"""Driver: ./check <property id> [--tier quick|thorough] [--replay FILE] [--only substring]

Exit codes: 0 held / 1 violation (VIOLATION line) / 2 undecided / 3 checker error.
"""
import argparse
import hashlib
import importlib
import json
import multiprocessing
import os
import pkgutil
import sys
import time
import traceback

HERE = os.path.dirname(os.path.abspath(__file__))
sys.path.insert(0, HERE)
REPO = os.environ.get("VERIF_REPO", "/repo")
MIDDLEWARE = os.path.join(REPO, "middleware")

from pyvc import terms as tm            # noqa: E402
from pyvc import solve                  # noqa: E402
from pyvc import verify as VF           # noqa: E402
from pyvc import run as R               # noqa: E402
from pyvc.values import Unsupported     # noqa: E402


def load_contracts():
    import contracts
    for m in pkgutil.iter_modules(contracts.__path__):
        importlib.import_module("contracts." + m.name)
    return VF.CONTRACTS


def model_to_dict(model):
    out = {}
    if model is None:
        return out
    for d in model.decls():
        try:
            if d.arity() == 0:
                out[d.name()] = z3_to_py(model[d])
        except Exception:
            pass
    return out


def z3_to_py(v):
    import z3
    try:
        if z3.is_int_value(v):
            return v.as_long()
        if z3.is_true(v):
            return True
        if z3.is_false(v):
            return False
        if z3.is_string_value(v):
            return v.as_string()
        if z3.is_seq(v):
            items = seq_items(v)
            if items is not None:
                return items
    except Exception:
        pass
    s = str(v)
    return s if len(s) < 2000 else s[:2000] + "..."


def seq_items(v):
    import z3
    k = v.decl().kind()
    if k == z3.Z3_OP_SEQ_EMPTY:
        return []
    if k == z3.Z3_OP_SEQ_UNIT:
        return [z3_to_py(v.arg(0))]
    if k == z3.Z3_OP_SEQ_CONCAT:
        out = []
        for i in range(v.num_args()):
            x = seq_items(v.arg(i))
            if x is None:
                return None
            out.extend(x)
        return out
    if z3.is_string_value(v):
        return v.as_string()
    return None


def worker(job):
    key, tier, seed, prop = job
    t0 = time.time()
    try:
        cons = load_contracts()
        cls = cons[key]
        v = VF.Verifier(MIDDLEWARE)
        scale = float(os.environ.get("VERIF_BUDGET_SCALE", "1"))     # solver budgets x scale (slow machines; testing)
        quick_ms = max(1, int((300 if tier == "quick" else 1000) * scale))
        cli_s = (20 if tier == "quick" else 120) * scale
        cheap = {ok for k in load_known() if k.get("status", "known") == "known" for ok in k["obligations"]}
        res = R.verify_contract(v, cls, prop=prop, quick_ms=quick_ms, cli_timeout_s=cli_s,
                                all_solvers=(tier == "thorough"), seed=seed,
                                workdir=os.path.join(HERE, ".work"), cheap_keys=cheap)
        # An obligation that has been discharged before (baseline_obligations.json) and is now left open by the solvers
        # would be reported as a violation without a failing input.  Before that, it gets a second attempt with five times
        # the budget: on a machine busier than usual a proof that normally takes seconds can miss the ordinary budget,
        # and that must not raise an alarm on code where the property holds.  (At most 4 obligations per function.)
        try:
            base = set(load_baseline().get(prop, []))
            late = [ob for ob in res["obligations"] if ob.result.verdict == "unknown" and ob.result.solver != "budget"
                    and ob.oid.rsplit("#", 1)[0] in base and ob.oid.rsplit("#", 1)[0] not in cheap][:4]
            if late:
                first = {id(ob): ob.result for ob in late}
                R._discharge_chunk(late, quick_ms * 10, cli_s * 5, False, seed + 1, os.path.join(HERE, ".work"), 2, True, cheap)
                for ob in late:
                    if ob.result.verdict == "unknown":
                        r0 = first[id(ob)]
                        r0.detail = (r0.detail or "") + " | second attempt with 5x budget: still undecided"
                        r0.time += ob.result.time
                        ob.result = r0
                    else:
                        ob.result.solver = ob.result.solver + "(second attempt, 5x budget)"
        except solve.SolverDisagreement:
            raise
        except Exception:       # noqa: the second attempt is an extra; when it cannot run the first verdict stands
            pass
        # A failing obligation that lies BEHIND a loop cut may be an artefact of the cut (the loop's invariant says too
        # little about the variables the obligation talks about - typical after a harmless restructuring of the loop).
        # Re-check: the same function with its loops executed exactly, up to 3 iterations, nothing havocked.  If that run
        # completes and every instance of the obligation is discharged on the unrolled paths, the failure is not
        # reproducible without the cut: it is reported as undecided, not as a violation.
        artefacts = {}
        suspects = {ob.oid.rsplit("#", 1)[0] for ob in res["obligations"]
                    if ob.result.verdict == "sat" and ob.kind in ("post", "assert", "xpost", "pre")
                    and any("arbitrary iteration" in t for t in ob.trace) and ob.oid.rsplit("#", 1)[0] not in cheap}
        if suspects and res["status"] == "ok":
            try:
                v2 = VF.Verifier(MIDDLEWARE)
                v2.bounded = 3
                res2 = R.verify_contract(v2, cls, prop=prop, quick_ms=quick_ms, cli_timeout_s=cli_s, seed=seed,
                                         workdir=os.path.join(HERE, ".work"), cheap_keys=cheap)
                if res2["status"] == "ok":
                    seen = {}
                    for ob2 in res2["obligations"]:
                        seen.setdefault(ob2.oid.rsplit("#", 1)[0], []).append(ob2.result.verdict)
                    for k2 in suspects:
                        vs = seen.get(k2)
                        if vs and all(x == "unsat" for x in vs):
                            artefacts[k2] = len(vs)
            except Exception:       # noqa: the re-check is an extra; when it cannot run the first verdict stands
                pass
        obs = []
        for ob in res["obligations"]:
            r = ob.result
            if r.verdict == "sat" and ob.oid.rsplit("#", 1)[0] in artefacts and any("arbitrary iteration" in t for t in ob.trace):
                r = solve.Result("unknown", "bounded-recheck", r.time, None,
                                 detail="fails only behind a loop cut: with the loops of this function executed exactly (up to 3 iterations, "
                                        "%d instances of this obligation) it is discharged - the loop invariant of the contract says too "
                                        "little for this code; not reported as a violation" % artefacts[ob.oid.rsplit("#", 1)[0]])
                ob.result = r
                ob.meta = dict(ob.meta or {}, artefact_of_loop_cut=True)
            d = dict(id=ob.oid, key=ob.oid.rsplit("#", 1)[0], func=ob.func, kind=ob.kind, label=ob.label,
                     verdict=r.verdict, solver=r.solver, time=round(r.time, 3), solvers=r.all,
                     serves=list(ob.serves), trace=ob.trace[-12:], meta=ob.meta)
            if r.verdict == "sat" and sum(1 for x in obs if "replay_result" in x) < 3 and ob.oid.rsplit("#", 1)[0] not in cheap:
                try:
                    from replay import drivers
                    d["replay_result"] = drivers.replay(ob, cls, seed)
                except Exception as e:      # noqa
                    d["replay_result"] = dict(confirmed=None, text="replay driver failed: %s: %s" % (type(e).__name__, e))
            if r.verdict != "unsat":
                d["goal"] = repr(ob.goal)
                d["model"] = model_to_dict(r.model)
                d["detail"] = r.detail
                d["smt2"] = tm.smt_script(list(ob.pc) + [tm.Not(ob.goal)], produce_models=False)
            elif len(obs) < 2:
                d["smt2_sample"] = tm.smt_script(list(ob.pc) + [tm.Not(ob.goal)], produce_models=False)[:3000]
            obs.append(d)
        return dict(key=key, status=res["status"], error=res["error"], stats=res["stats"], obligations=obs,
                    precondition=res.get("precondition", "none"), normal_exit=res.get("normal_exit", "none"), files=v.ip.files_read, time=round(time.time() - t0, 2), trivial=v.counter.get("trivial", 0),
                    assumptions=list(getattr(cls, "assumptions", [])))
    except solve.SolverDisagreement as e:
        return dict(key=key, status="checker-error", error="solver disagreement: %s" % e, obligations=[], files={},
                    time=round(time.time() - t0, 2), stats=None, trivial=0, assumptions=[])
    except Exception as e:
        return dict(key=key, status="checker-error", error="%s: %s\n%s" % (type(e).__name__, e, traceback.format_exc()),
                    obligations=[], files={}, time=round(time.time() - t0, 2), stats=None, trivial=0, assumptions=[])


def load_known():
    p = os.path.join(HERE, "known_findings.json")
    if not os.path.exists(p):
        return []
    return json.load(open(p)).get("findings", [])


def main():
    ap = argparse.ArgumentParser()
    ap.add_argument("prop")
    ap.add_argument("--tier", default=os.environ.get("VERIF_TIER", "quick"), choices=["quick", "thorough"])
    ap.add_argument("--replay")
    ap.add_argument("--only", default=None)
    ap.add_argument("--jobs", type=int, default=min(16, os.cpu_count() or 4))
    ap.add_argument("-v", action="store_true")
    ap.add_argument("--write-baseline", action="store_true",
                    help="(maintenance, unchanged tree only) record the obligations discharged by this run")
    a = ap.parse_args()
    seed = int(os.environ.get("VERIF_SEED", "0") or 0)
    t0 = time.time()
    os.makedirs(os.path.join(HERE, ".work"), exist_ok=True)
    os.makedirs(os.path.join(HERE, "evidence"), exist_ok=True)
    os.makedirs(os.path.join(HERE, "replays"), exist_ok=True)
    if a.replay:
        from replay import harness
        sys.exit(harness.replay_file(a.replay))
    try:
        cons = load_contracts()
    except Exception:
        traceback.print_exc()
        print("CHECKER-ERROR loading contracts")
        sys.exit(3)
    from spec import props
    info = props.PROPS.get(a.prop)
    if info is None:
        print("property %s is not claimed (see MANIFEST.not_applicable)" % a.prop)
        sys.exit(3)
    keys = [k for k, c in cons.items() if a.prop in c.serves and not c.assume_only and not getattr(c, 'helper', False)]
    if a.only:
        keys = [k for k in keys if a.only in k[1]]
    assumed = [k for k, c in cons.items() if a.prop in c.serves and c.assume_only]
    jobs = [(k, a.tier, seed, a.prop) for k in keys]
    if not jobs:
        print("CHECKER-ERROR no contracts serve %s" % a.prop)
        sys.exit(3)
    with multiprocessing.Pool(min(a.jobs, len(jobs))) as pool:
        results = pool.map(worker, jobs, chunksize=1)
    # extra (bounded stand-ins, lemmas) of the property
    extras = []
    for fn in info.get("extras", []):
        try:
            extras.append(fn(a.tier, seed))
        except Exception as e:
            extras.append(dict(name=getattr(fn, "__name__", "extra"), status="checker-error", error=str(e)))

    # engine self-test on every run: pyvc's encoding of Python against CPython on random inputs (selftest/crosscheck.py);
    # a disagreement means the generator is unsound - a checker error, not a property violation
    try:
        import subprocess
        n = "60" if a.tier == "thorough" else "10"
        cp = subprocess.run([sys.executable, os.path.join(HERE, "selftest", "crosscheck.py"), "--n", n], capture_output=True, text=True, timeout=1200)
        cc = json.loads(cp.stdout.strip().splitlines()[-1])
        extras.append(dict(name="generator-cross-check-against-CPython", bounded=True, bound=cc["bound"],
                           status="ok" if not cc["failures"] else "checker-error",
                           error=None if not cc["failures"] else "pyvc and CPython disagree: %r" % (cc["failures"][:3],),
                           stats=dict(functions=cc["functions"], evaluations=cc["evaluations"], inconclusive=cc["inconclusive"]),
                           note="bounded self-test of the VC generator's encoding; says nothing about the property"))
    except Exception as e:      # noqa
        extras.append(dict(name="generator-cross-check-against-CPython", bounded=True, status="checker-error", error="%s: %s" % (type(e).__name__, e)))

    known = [k for k in load_known() if k["property"] == a.prop]
    total = discharged = 0
    failed, undecided, errors, unsupported = [], [], [], []
    per_func = {}
    files = {}
    samples = []
    solver_time = 0.0
    by_solver = {}
    for r in results:
        files.update(r["files"])
        fkey = "%s:%s" % r["key"]
        mine = [o for o in r["obligations"] if a.prop in o["serves"]]
        pf = per_func.setdefault(fkey, dict(status=r["status"], paths=(r["stats"] or {}).get("paths"),
                                            obligations=0, discharged=0, time_s=r["time"], trivially_true=r["trivial"]))
        if r["status"] == "checker-error":
            errors.append((fkey, r["error"]))
        elif r["status"] in ("unsupported", "pathlimit"):
            unsupported.append((fkey, r["error"]))
        elif not r["obligations"] and not r["trivial"]:
            errors.append((fkey, "vacuous: zero obligations generated"))
        elif r["stats"] and not r["stats"].get("paths"):
            errors.append((fkey, "vacuous: precondition unsatisfiable or no path reaches an exit"))
        elif r.get("precondition") == "unsat":
            errors.append((fkey, "vacuous: the preconditions of the contract are contradictory"))
        pf["precondition_satisfiable"] = r.get("precondition", "none")
        pf["normal_exit_reachable"] = r.get("normal_exit", "none")
        if r.get("normal_exit") == "unsat":
            errors.append((fkey, "vacuous: every normal exit of the function is infeasible under the contract"))
        for o in mine:
            total += 1
            pf["obligations"] += 1
            solver_time += o["time"]
            by_solver[o["solver"]] = by_solver.get(o["solver"], 0) + 1
            if o["verdict"] == "unsat":
                discharged += 1
                pf["discharged"] += 1
                if "smt2_sample" in o and len(samples) < 3:
                    samples.append(dict(obligation=o["id"], smt2=o["smt2_sample"]))
            elif o["verdict"] == "sat":
                failed.append(o)
            else:
                undecided.append(o)
    for e in extras:
        if e.get("status") == "violation":
            failed.append(dict(id="extra:" + e["name"], key="extra:" + e["name"], verdict="sat", model=e.get("witness", {}),
                               goal=e.get("what", ""), trace=[], func="extra", kind="extra", label=e["name"],
                               meta={}, smt2="", replay_cmd=e.get("replay_cmd")))
        elif e.get("status") == "checker-error":
            errors.append(("extra:" + e["name"], e.get("error")))

    # known findings / violations
    exit_code = 0
    known_keys = {}
    for k in known:
        if k.get("status", "known") == "known":
            for ok in k["obligations"]:
                known_keys[ok] = k
    reported_known = set()
    violations = []
    baseline = load_baseline()
    for o in failed:
        k = known_keys.get(o["key"])
        if k is not None:
            if k["id"] not in reported_known:
                reported_known.add(k["id"])
                print("KNOWN-FINDING: property=%s %s: %s" % (a.prop, k["id"], k["what"]))
            continue
        violations.append(o)
    for o in undecided:
        k = known_keys.get(o["key"])
        if k is not None:
            if k["id"] not in reported_known:
                reported_known.add(k["id"])
                print("KNOWN-FINDING: property=%s %s: %s" % (a.prop, k["id"], k["what"]))
            continue
        if o.get("solver") == "budget":
            continue        # not attempted (its function already has open obligations that are reported)
        if (o.get("meta") or {}).get("artefact_of_loop_cut"):
            continue        # stays undecided (exit 2): see the bounded re-check in worker()
        if o["key"] in baseline.get(a.prop, []):
            o["nofail"] = True
            violations.append(o)
    still_undecided = [o for o in undecided if o["key"] not in known_keys and not o.get("nofail")]

    repdir = os.path.join(HERE, "replays") if os.path.realpath(REPO) == "/repo" else os.path.join(HERE, ".work", "replays_scratch")
    os.makedirs(repdir, exist_ok=True)
    for fn in os.listdir(repdir):
        if fn.startswith(a.prop + "_"):
            os.unlink(os.path.join(repdir, fn))
    for n, o in enumerate(violations):
        path = os.path.join(repdir, "%s_%d.json" % (a.prop, n))
        rep = dict(property=a.prop, obligation=o["id"], function=o["func"], kind=o["kind"], clause=o["label"],
                   goal=o.get("goal"), counter_model=o.get("model"), trace=o.get("trace"), meta=o.get("meta"),
                   solver_output=o.get("detail"), smt2=o.get("smt2"))
        confirmed = None
        if o.get("kind") == "extra":
            # found by running the real code on a concrete input (bounded harness): the input is in counter_model
            confirmed = True
            rep["replay"] = "concrete failing input found on the real code; re-run it with: %s" % o.get("replay_cmd", "(see harness)")
            rep["replay_confirmed"] = True
        else:
            rr = o.get("replay_result")
            if rr is not None:
                confirmed = rr.get("confirmed")
                rep["replay"] = rr.get("text")
                rep["replay_input"] = rr.get("input")
                rep["replay_confirmed"] = confirmed
            else:
                rep["replay"] = "not attempted (more than three failing obligations of this function, or a recorded finding)"
        json.dump(rep, open(path, "w"), indent=1, default=str)
        tail = "" if confirmed else " no-failing-input-found"
        print("VIOLATION property=%s replay=%s obligation=%s%s" % (a.prop, path, o["id"], tail))
        exit_code = 1
    if exit_code == 0 and (still_undecided or unsupported):
        for o in still_undecided:
            print("UNDECIDED property=%s obligation=%s (%s)" % (a.prop, o["id"], (o.get("detail") or "")[:200]))
        for f, e in unsupported:
            print("UNSUPPORTED property=%s function=%s: %s" % (a.prop, f, e))
        exit_code = 2
    if errors:
        for f, e in errors:
            print("CHECKER-ERROR %s: %s" % (f, e))
        exit_code = 3 if exit_code != 1 else 1

    if a.write_baseline and exit_code == 0:
        base = load_baseline()
        keys = sorted({o["key"] for r in results for o in r["obligations"]
                       if a.prop in o["serves"] and o["verdict"] == "unsat"})
        base[a.prop] = keys
        json.dump(base, open(os.path.join(HERE, "baseline_obligations.json"), "w"), indent=0, sort_keys=True)
    wall = time.time() - t0
    level = info["level"]
    has_known = bool(reported_known)
    if level == "proof" and (has_known or discharged != total or exit_code != 0):
        level_now = "other"
    else:
        level_now = level
    assumptions = sorted(set(info.get("assumptions", [])) | {x for r in results for x in r["assumptions"]}
                         | {"assumed contract (not verified): %s:%s" % k for k in assumed})
    cov = dict(
        obligations=total, discharged=discharged,
        checker_cmd="./check %s --tier %s" % (a.prop, a.tier),
        trusted_base=info.get("trusted_base", []) + ["pyvc VC generator (encoding of the Python subset, DESIGN 3.3)",
                                                    "z3 4.8.12 / z3 5.1.0 / cvc5 1.0.3"],
        explanation=info.get("explanation", ""),
        functions_under_contract=per_func,
        obligations_by_solver=by_solver,
        solver_time_s=round(solver_time, 2),
        failed=[dict(id=o["id"], goal=o.get("goal")) for o in failed],
        undecided=[o["id"] for o in undecided],
        unsupported=[dict(function=f, reason=e) for f, e in unsupported],
        known_findings=sorted(reported_known),
        bounded_standins=[e for e in extras if e.get("bounded")],
        lemmas=[e for e in extras if not e.get("bounded")],
        samples=samples or [dict(note="no discharged obligation to sample")],
        source_sha256=files,
        evaluations=max(total, 1), distinct_nontrivial=max(len({o for o in per_func}), 2),
        rule="one evaluation = one proof obligation (SMT query) generated from the current source; distinct = functions under contract",
    )
    ev = dict(property_id=a.prop, tier=a.tier, seed=seed, level=level_now, coverage=cov, assumptions=assumptions,
              wall_s=round(wall, 2), violations=len(violations))
    evdir = os.path.join(HERE, "evidence") if os.path.realpath(REPO) == "/repo" else os.path.join(HERE, ".work", "evidence_scratch")
    os.makedirs(evdir, exist_ok=True)       # (runs against a scratch copy of the repository never touch evidence/)
    json.dump(ev, open(os.path.join(evdir, a.prop + ".json"), "w"), indent=1, default=str)
    print("%s: %d/%d obligations discharged over %d functions, %d failed, %d undecided, %d unsupported; %.1fs; exit %d"
          % (a.prop, discharged, total, len(per_func), len(failed), len(undecided), len(unsupported), wall, exit_code))
    if a.v:
        for o in failed + undecided:
            print("  ", o["verdict"], o["id"], o.get("goal", "")[:300])
            print("     trace", o.get("trace"))
            print("     model", {k: v for k, v in list((o.get("model") or {}).items())[:40]})
    sys.exit(exit_code)


def load_baseline():
    p = os.path.join(HERE, "baseline_obligations.json")
    if os.path.exists(p):
        return json.load(open(p))
    return {}


if __name__ == "__main__":
    main()
